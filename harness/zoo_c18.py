"""Legacy (parent-aware) node zoo for C18 / C19.

Child fields of every kind the legacy package knows: required single, optional single, tuple, list,
restricted unions; declaration order different from name order (`LMixed`); a subclass chain
(`LLeaf2 <- LLeaf`) for the `issubclass` test in `replace_with`; a non-compare property (`tag`)
that enters the id but not the content id.

The harness describes classes to the model from the table `CLASSES` below (its own knowledge),
never through pyoak's accessors.
"""
from __future__ import annotations

from dataclasses import dataclass, field

from pyoak.legacy.node import AwareASTNode


@dataclass
class LNode(AwareASTNode):
    pass


@dataclass
class LLeaf(LNode):
    v: int = 0
    tag: str = field(default="", compare=False)


@dataclass
class LLeaf2(LLeaf):
    pass


@dataclass
class LUn(LNode):
    arg: LNode = None  # type: ignore[assignment]
    v: int = 0
    tag: str = field(default="", compare=False)


@dataclass
class LBin(LNode):
    left: LNode = None  # type: ignore[assignment]
    right: LNode = None  # type: ignore[assignment]
    v: int = 0
    tag: str = field(default="", compare=False)


@dataclass
class LOpt(LNode):
    c: LNode | None = None
    v: int = 0
    tag: str = field(default="", compare=False)


@dataclass
class LTup(LNode):
    items: tuple[LNode, ...] = ()
    v: int = 0
    tag: str = field(default="", compare=False)


@dataclass
class LLst(LNode):
    items: list[LNode] = field(default_factory=list)
    v: int = 0
    tag: str = field(default="", compare=False)


@dataclass
class LMixed(LNode):
    """declaration order z, items, a, xs  !=  name order a, items, xs, z"""

    z: LNode = None  # type: ignore[assignment]
    items: tuple[LNode, ...] = ()
    a: LNode | None = None
    xs: list[LNode] = field(default_factory=list)
    v: int = 0
    tag: str = field(default="", compare=False)


@dataclass
class LRestr(LNode):
    """restricted child types: the target of replace_with type violations"""

    r: LLeaf = None  # type: ignore[assignment]
    c: LLeaf | LUn | None = None
    rs: tuple[LLeaf, ...] = ()
    v: int = 0
    tag: str = field(default="", compare=False)


# ---- falsy nodes: truthiness of a node must never matter to the library

@dataclass
class LFLeaf(LLeaf):
    """a leaf that is False in a boolean context"""

    def __bool__(self) -> bool:
        return False


@dataclass
class LFUn(LNode):
    """an inner node (required child) that is False in a boolean context"""

    arg: LNode = None  # type: ignore[assignment]
    v: int = 0
    tag: str = field(default="", compare=False)

    def __bool__(self) -> bool:
        return False


@dataclass
class LFTup(LNode):
    """container-like: len(node) is the number of items, so an empty one is falsy"""

    items: tuple[LNode, ...] = ()
    v: int = 0
    tag: str = field(default="", compare=False)

    def __len__(self) -> int:
        return len(self.items)


@dataclass
class LFLst(LNode):
    items: list[LNode] = field(default_factory=list)
    v: int = 0
    tag: str = field(default="", compare=False)

    def __len__(self) -> int:
        return len(self.items)


# kind: one (required) | opt | tup | lst ;  allowed = class names accepted by issubclass in replace_with
CLASSES: dict[str, dict] = {
    "LLeaf": {"cls": LLeaf, "mro": ["LLeaf", "LNode"], "fields": []},
    "LLeaf2": {"cls": LLeaf2, "mro": ["LLeaf2", "LLeaf", "LNode"], "fields": []},
    "LUn": {"cls": LUn, "mro": ["LUn", "LNode"], "fields": [("arg", "one", ["LNode"])]},
    "LBin": {"cls": LBin, "mro": ["LBin", "LNode"],
             "fields": [("left", "one", ["LNode"]), ("right", "one", ["LNode"])]},
    "LOpt": {"cls": LOpt, "mro": ["LOpt", "LNode"], "fields": [("c", "opt", ["LNode"])]},
    "LTup": {"cls": LTup, "mro": ["LTup", "LNode"], "fields": [("items", "tup", ["LNode"])]},
    "LLst": {"cls": LLst, "mro": ["LLst", "LNode"], "fields": [("items", "lst", ["LNode"])]},
    "LMixed": {"cls": LMixed, "mro": ["LMixed", "LNode"],
               "fields": [("z", "one", ["LNode"]), ("items", "tup", ["LNode"]), ("a", "opt", ["LNode"]),
                          ("xs", "lst", ["LNode"])]},
    "LFLeaf": {"cls": LFLeaf, "mro": ["LFLeaf", "LLeaf", "LNode"], "fields": []},
    "LFUn": {"cls": LFUn, "mro": ["LFUn", "LNode"], "fields": [("arg", "one", ["LNode"])]},
    "LFTup": {"cls": LFTup, "mro": ["LFTup", "LNode"], "fields": [("items", "tup", ["LNode"])]},
    "LFLst": {"cls": LFLst, "mro": ["LFLst", "LNode"], "fields": [("items", "lst", ["LNode"])]},
    "LRestr": {"cls": LRestr, "mro": ["LRestr", "LNode"],
               "fields": [("r", "one", ["LLeaf"]), ("c", "opt", ["LLeaf", "LUn"]), ("rs", "tup", ["LLeaf"])]},
}
NAMES = list(CLASSES)
INNER = [n for n in NAMES if CLASSES[n]["fields"]]


def cname(o) -> str:
    return type(o).__name__


def fields_of(o) -> list[tuple[str, str, list]]:
    """[(field name, kind, [child objects])] in declaration order, read with getattr only"""
    out = []
    for name, kind, _allowed in CLASSES[cname(o)]["fields"]:
        val = getattr(o, name)
        if kind in ("tup", "lst"):
            out.append((name, kind, list(val)))
        else:
            out.append((name, kind, [] if val is None else [val]))
    return out


def kids_pos(o) -> list[tuple[object, str, int | None]]:
    """[(child, field name, index or None)]"""
    out = []
    for name, kind, ks in fields_of(o):
        for i, c in enumerate(ks):
            out.append((c, name, i if kind in ("tup", "lst") else None))
    return out


def class_table_sexp():
    from proto import A
    return [A("lclasses")] + [
        [n, list(d["mro"]), [[f, A(k), list(al)] for f, k, al in d["fields"]]] for n, d in CLASSES.items()
    ]


# ---- classes whose child fields the legacy library recognises only at run time (NOT in `CLASSES`: outside the Lean model;
#      used by directed, oracle-only scenarios of C18 / C20)
import typing as _typing


@dataclass
class LSeq(LNode):
    body: _typing.Sequence[LNode] = ()
    v: int = 0


@dataclass
class LAnyKid(LNode):
    x: _typing.Any = None
    v: int = 0


def dyn_children(o) -> list[tuple[str, object, list]]:
    """[(field, None | index list marker, children)] of a node of any class, read from the dataclass fields by value"""
    import dataclasses
    out = []
    for f in dataclasses.fields(o):
        if f.name.startswith("_") or f.name in ("origin",):
            continue
        v = getattr(o, f.name)
        if isinstance(v, AwareASTNode):
            out.append((f.name, False, [v]))
        elif isinstance(v, (tuple, list)) and v and all(isinstance(x, AwareASTNode) for x in v):
            out.append((f.name, True, list(v)))
    return out


def dyn_consistent(root) -> str | None:
    """the C18 statement evaluated on the real objects of one attached tree (any classes)"""
    stack = [root]
    while stack:
        n = stack.pop()
        if n.detached or AwareASTNode.get_any(n.id) is not n:
            return f"{type(n).__name__}(v={getattr(n, 'v', None)}) is stored in an attached tree but is detached / not returned by lookup"
        for fname, coll, kids in dyn_children(n):
            for i, c in enumerate(kids):
                pf = c.parent_field.name if c.parent_field is not None else None
                if c.parent is not n or pf != fname or c.parent_index != (i if coll else None):
                    return (f"{type(c).__name__}(v={getattr(c, 'v', None)}) is stored at {type(n).__name__}.{fname}"
                            f"{[i] if coll else ''} but reports parent={c.parent!r:.60} field={pf} index={c.parent_index}")
                stack.append(c)
    return None
