"""Shared machinery of C18 / C19: histories of legacy (parent-aware) node operations.

* `World`      one history executed on the REAL code: objects named by harness tokens (keyed by
               `id(obj)`, never by `==`), every library call under a 2 s CPU alarm, the state
               dump after every operation, the C18 invariant oracle and the C19 frame oracle
               evaluated directly on the real objects.
* `Gen`        seeded, state-aware generator of admissible operations (never a cycle, never one
               object twice inside a built value) with an adversarial stream of operations built
               to be rejected at every possible point.
* `encode_history`  protocol line for the Lean model (`legacy` command) and the canonical real
               observation that must be byte-identical to the model's answer.

Abstract operations name objects by `(uid of the creating op, discovery ordinal)`, so a history
stays replayable when operations are deleted (delta debugging).
"""
from __future__ import annotations

import gc
import random
import signal
from dataclasses import dataclass, field

from pyoak.legacy import node as lnode
from pyoak.legacy.error import (
    ASTNodeDuplicateChildrenError,
    ASTNodeIDCollisionError,
    ASTNodeParentCollisionError,
    ASTNodeRegistryCollisionError,
    ASTNodeReplaceError,
    ASTNodeReplaceWithError,
    ASTTransformError,
)
from pyoak.legacy.node import ASTTransformer, ASTTransformVisitor, AwareASTNode
from pyoak.origin import NO_ORIGIN, CodeOrigin, MemoryTextSource, get_code_range

import zoo_c18 as Z
from proto import A, dumps

DOCUMENTED = (
    ASTNodeDuplicateChildrenError, ASTNodeIDCollisionError, ASTNodeParentCollisionError,
    ASTNodeRegistryCollisionError, ASTNodeReplaceError, ASTNodeReplaceWithError, ASTTransformError,
)
ORIGINS = [
    NO_ORIGIN,
    CodeOrigin(MemoryTextSource("a", source_uri="u1"), get_code_range(0, 1, 0, 3, 1, 3)),
    CodeOrigin(MemoryTextSource("b", source_uri="u2"), get_code_range(0, 1, 0, 3, 1, 3)),
]
REBUILD_ORIGIN = CodeOrigin(MemoryTextSource("r", source_uri="rebuild"), get_code_range(0, 1, 0, 3, 1, 3))
EXPLICIT_IDS = ["a", "b", "a_1", "b_1", "a_2"]
BAD_KEYS = ["id", "content_id", "original_id", "id_collision_with", "nonexistent"]


class Hang(BaseException):
    pass


def _on_vtalrm(signum, frame):
    raise Hang()


def guarded(fn, seconds: float = 2.0):
    """run fn() under a CPU-time alarm (ITIMER_VIRTUAL: run.py owns SIGALRM / ITIMER_REAL)"""
    old = signal.signal(signal.SIGVTALRM, _on_vtalrm)
    signal.setitimer(signal.ITIMER_VIRTUAL, seconds)
    try:
        return fn()
    finally:
        signal.setitimer(signal.ITIMER_VIRTUAL, 0)
        signal.signal(signal.SIGVTALRM, old)


@dataclass
class Op:
    uid: int
    kind: str                      # new attach detach replace rwith dup tvisit texec
    recv: tuple | None = None      # name of the receiver
    a: dict = field(default_factory=dict)

    def show(self) -> str:
        def nm(x):
            if x is None:
                return "None"
            if isinstance(x, tuple) and len(x) == 2 and all(isinstance(e, int) for e in x):
                return f"n{x[0]}.{x[1]}"
            if isinstance(x, (list,)):
                return "[" + ",".join(nm(e) for e in x) + "]"
            if isinstance(x, dict):
                return "{" + ",".join(f"{k}={nm(v)}" for k, v in x.items()) + "}"
            return repr(x)
        r = "" if self.recv is None else nm(self.recv) + "."
        return f"#{self.uid}:{r}{self.kind}({','.join(f'{k}={nm(v)}' for k, v in self.a.items())})"


# ---------------------------------------------------------------------------------- rule visitors

def _rule(rules, n):
    for cls, v, act in rules:
        if cls == Z.cname(n) and (v is None or v == n.v):
            return act
    return None


class RuleVisitor(ASTTransformVisitor):
    """rules: [(class name, v or None, action)], action = remove | raise | ("set", v) | ("fresh", v)"""

    def __init__(self, rules):
        self.rules = rules

    def generic_visit(self, node):
        act = _rule(self.rules, node)
        if act is None:
            return super().generic_visit(node)
        if act == "remove":
            return None
        if act == "raise":
            raise ValueError("rule")
        if act[0] == "set":
            ch = dict(self._transform_children(node))
            ch["v"] = act[1]
            return node.replace(**ch)
        if act[0] == "fresh":
            return Z.LLeaf(act[1], origin=ORIGINS[0])
        if act[0] == "fresh2":          # a node of a class the parent may not accept
            return Z.LTup((), act[1], origin=ORIGINS[0])
        raise AssertionError(act)


class RuleTransformer(ASTTransformer):
    def __init__(self, rules):
        self.rules = rules

    def filter(self, node):
        return _rule(self.rules, node) is not None

    def transform(self, node):
        act = _rule(self.rules, node)
        if act == "remove":
            return None
        if act[0] == "set":
            return node.replace(v=act[1])
        if act[0] == "fresh":
            return Z.LLeaf(act[1], origin=ORIGINS[0])
        if act[0] == "fresh2":          # a node of a class the parent may not accept
            return Z.LTup((), act[1], origin=ORIGINS[0])
        raise AssertionError(act)


def _make_sexp(cls: str, v: int):
    """the constructor call of a `fresh` / `fresh2` action, as a `new` request of the model: what
    `Z.LLeaf(v, origin=ORIGINS[0])` / `Z.LTup((), v, origin=ORIGINS[0])` pass (all other arguments default)"""
    kids = [[fname] for fname, _kind, _al in Z.CLASSES[cls]["fields"]]
    return [A("new"), cls, [["tag", "", False], ["v", str(v), True]], None, ORIGINS[0].fqn, False, False, False,
            [A("kids")] + kids]


def _rule_sexp(rule):
    """one rule of a RuleVisitor / RuleTransformer for the model's rule table"""
    cls, v, act = rule
    pv = None if v is None else ["v", str(v)]
    if act in ("remove", "raise"):
        a = A(act)
    elif act[0] == "set":
        a = [A("set"), [["v", str(act[1]), True]]]
    elif act[0] == "fresh":
        a = [A("make"), _make_sexp("LLeaf", act[1])]
    elif act[0] == "fresh2":
        a = [A("make"), _make_sexp("LTup", act[1])]
    else:
        raise AssertionError(act)
    return [cls, pv, a]


# ---------------------------------------------------------------------------------- the real world

class World:
    def __init__(self):
        AwareASTNode._nodes.clear()
        gc.collect()
        self.objs: list = []            # token -> object (strong reference: nothing the harness saw ever dies)
        self.tok: dict[int, int] = {}   # id(obj) -> token
        self.names: dict[tuple, int] = {}   # (op uid, ordinal) -> token
        self.name_of: dict[int, tuple] = {}
        self.idc: dict[str, int] = {}   # id string -> class number (first occurrence)
        self.cidc: dict[str, int] = {}
        self.steps: list = []           # (op, token-level request, outcome, dump)
        self.hung = False

    # ---- tokens
    def t(self, o) -> int | None:
        return self.tok.get(id(o))

    def _see(self, o, opuid: int, counter: list) -> None:
        if id(o) in self.tok:
            return
        k = len(self.objs)
        self.objs.append(o)
        self.tok[id(o)] = k
        nm = (opuid, counter[0])
        counter[0] += 1
        self.names[nm] = k
        self.name_of[k] = nm

    def discover(self, result, opuid: int) -> None:
        counter = [0]
        if isinstance(result, AwareASTNode):
            self._see(result, opuid, counter)
        i = 0
        while i < len(self.objs):
            for c, _f, _i in Z.kids_pos(self.objs[i]):
                self._see(c, opuid, counter)
            i += 1

    def obj(self, name):
        k = self.names.get(name)
        return None if k is None else self.objs[k]

    # ---- structure as the harness reads it
    def closure(self, roots) -> list:
        seen, out, stack = set(), [], list(reversed(list(roots)))
        while stack:
            o = stack.pop()
            if id(o) in seen:
                continue
            seen.add(id(o))
            out.append(o)
            stack.extend(reversed([c for c, _f, _i in Z.kids_pos(o)]))
        return out

    def holders(self) -> dict[int, list]:
        """id(child) -> [(attached holder, field, index)]"""
        h: dict[int, list] = {}
        for o in self.objs:
            if not o.detached:
                for c, f, i in Z.kids_pos(o):
                    h.setdefault(id(c), []).append((o, f, i))
        return h

    def up_set(self, u) -> set[int]:
        """ids of all proper ancestors of u, following library parent links and attached holders"""
        hs = self.holders()
        seen: set[int] = set()
        work = [u]
        while work:
            x = work.pop()
            ps = [h[0] for h in hs.get(id(x), [])]
            pid = getattr(x, "_parent_id", None)
            if pid is not None:
                p = AwareASTNode._nodes.get(pid)
                if p is not None:
                    ps.append(p)
            for p in ps:
                if id(p) not in seen:
                    seen.add(id(p))
                    work.append(p)
        return seen

    # ---- admissibility (no cycle; no object twice inside a built value)
    def admissible(self, op: Op, allow_repeat: bool = False) -> str | None:
        """None if admissible, else the reason"""
        def objs_of(v):
            if v is None:
                return []
            if isinstance(v, list):
                return [self.obj(x) for x in v]
            return [self.obj(v)]
        recv = self.obj(op.recv) if op.recv is not None else None
        if op.recv is not None and recv is None:
            return "unresolved receiver"
        args: list = []
        if op.kind == "new":
            for v in op.a["kids"].values():
                args += objs_of(v)
        elif op.kind == "replace":
            for k, v in op.a["changes"].items():
                if k in ("v", "tag"):
                    continue
                args += objs_of(v)
            # the node that would be built also keeps the children of the unchanged fields
            built = list(args)
            for f, _kd, ks in Z.fields_of(recv):
                if f not in op.a["changes"]:
                    built += ks
        elif op.kind == "rwith":
            args += objs_of(op.a["new"])
        if any(x is None for x in args):
            return "unresolved argument"
        if True:
            seen: set[int] = set()
            stack = list(built if op.kind == "replace" else args)
            if allow_repeat:
                # the same object twice among the DIRECT children is what `_check_unique_children` is there
                # to reject; deeper repeats are outside every quantifier
                stack = list({id(o): o for o in stack}.values())
            while stack:
                o = stack.pop()
                if id(o) in seen:
                    if op.a.get("deep_repeat"):
                        # directed rejected constructor (new-dup-deep): one object below a detached wrapper AND directly
                        break
                    return "object twice"
                seen.add(id(o))
                stack.extend(c for c, _f, _i in Z.kids_pos(o))
        if op.a.get("cyc"):
            # operations built to be REJECTED whose argument is an ancestor of the receiver / the receiver itself:
            # inadmissible as successful operations, legitimate as rejected ones (every call runs under the alarm)
            return None
        if recv is not None and args:
            up = self.up_set(recv)
            if any(id(o) in up for o in self.closure(args)):
                return "cycle"
        if op.kind == "rwith" and args and args[0] is recv:
            return "self"
        return None

    # ---- execution
    def _call(self, op: Op):
        g = lambda nm: self.obj(nm)  # noqa: E731
        k = op.kind
        if k == "new":
            a = op.a
            cls = Z.CLASSES[a["cls"]]["cls"]
            kw = {}
            for fname, kind, _al in Z.CLASSES[a["cls"]]["fields"]:
                v = a["kids"].get(fname)
                if kind == "tup":
                    kw[fname] = tuple(g(x) for x in (v or []))
                elif kind == "lst":
                    kw[fname] = [g(x) for x in (v or [])]
                else:
                    kw[fname] = None if v is None else g(v)
            if a["id"] is not None:
                kw["id"] = a["id"]
            return cls(v=a["v"], tag=a["tag"], origin=ORIGINS[a["org"]], ensure_unique_id=a["eu"],
                       create_as_duplicate=a["asdup"], create_detached=a["det"], **kw)
        recv = g(op.recv)
        if k == "attach":
            return recv.attach()
        if k == "detach":
            return recv.detach(only_self=op.a["only_self"])
        if k == "replace":
            ch = {}
            kinds = {f: kd for f, kd, _ in Z.CLASSES[Z.cname(recv)]["fields"]}
            for key, v in op.a["changes"].items():
                if key in ("v", "tag"):
                    ch[key] = v
                elif kinds[key] == "tup":
                    ch[key] = tuple(g(x) for x in v)
                elif kinds[key] == "lst":
                    ch[key] = [g(x) for x in v]
                else:
                    ch[key] = None if v is None else g(v)
            for b in op.a.get("bad", []):
                ch[b] = "x"
            return recv.replace(**ch)
        if k == "rwith":
            return recv.replace_with(None if op.a["new"] is None else g(op.a["new"]))
        if k == "dup":
            return recv.duplicate(as_detached_clone=op.a["clone"])
        if k == "tvisit":
            return RuleVisitor(op.a["rules"]).transform(recv)
        if k == "texec":
            return RuleTransformer(op.a["rules"]).execute(recv)
        raise AssertionError(k)

    def request(self, op: Op):
        """token-level request for the model (built BEFORE the call)"""
        tk = lambda nm: self.names[nm]  # noqa: E731
        k = op.kind
        if k == "new":
            a = op.a
            kids = []
            for fname, kind, _al in Z.CLASSES[a["cls"]]["fields"]:
                v = a["kids"].get(fname)
                if kind in ("tup", "lst"):
                    kids.append([fname] + [tk(x) for x in (v or [])])
                else:
                    kids.append([fname] + ([] if v is None else [tk(v)]))
            props = [["tag", a["tag"], False], ["v", str(a["v"]), True]]
            return [A("new"), a["cls"], props, a["id"], ORIGINS[a["org"]].fqn, a["eu"], a["asdup"], a["det"],
                    [A("kids")] + kids]
        r = tk(op.recv)
        if k == "attach":
            return [A("attach"), r]
        if k == "detach":
            return [A("detach"), r, op.a["only_self"]]
        if k == "replace":
            ch = op.a["changes"]
            props = []
            if "tag" in ch:
                props.append(["tag", ch["tag"], False])
            if "v" in ch:
                props.append(["v", str(ch["v"]), True])
            kids = []
            for key, v in ch.items():
                if key in ("v", "tag"):
                    continue
                kids.append([key] + ([tk(x) for x in v] if isinstance(v, list) else ([] if v is None else [tk(v)])))
            return [A("replace"), r, props, [A("kids")] + kids, [A("bad")] + list(op.a.get("bad", []))]
        if k == "rwith":
            return [A("rwith"), r, None if op.a["new"] is None else tk(op.a["new"])]
        if k == "dup":
            return [A("dup"), r, op.a["clone"]]
        return [A(k), r, [A("rules")] + [_rule_sexp(rule) for rule in op.a["rules"]]]

    def exec(self, op: Op, allow_repeat: bool = False):
        """-> outcome (list) ; appends to self.steps.  outcome[0] in ok raise hang skip"""
        why = self.admissible(op, allow_repeat)
        if why is not None:
            return [A("skip"), why]
        req = self.request(op)
        before = self.snapshot()
        res = None
        try:
            res = guarded(lambda: self._call(op))
            out = [A("ok"), None]
        except Hang:
            self.hung = True
            out = [A("hang")]
        except DOCUMENTED as e:
            out = [A("raise"), A(type(e).__name__)]
            e = None
        except Exception as e:  # noqa: BLE001
            out = [A("raise"), A("Other-" + type(e).__name__)]
            e = None
        if out[0] != "ok":
            # a rejected call may leave its temporaries in traceback cycles: weak registry entries of
            # dead objects must be gone before the state is observed
            gc.collect(1)
        if out[0] == "ok":
            self.discover(res, op.uid)
            if isinstance(res, AwareASTNode):
                out[1] = self.t(res)
            elif isinstance(res, bool):
                out[1] = res
        else:
            self.discover(None, op.uid)
            if any(id(v) not in self.tok for v in list(AwareASTNode._nodes.values())):
                gc.collect()
        res = None
        self.steps.append((op, req, out, self.dump(), before))
        if out[0] != "hang" and op.uid % 3 == 0 and self.objs:
            self.readonly_probe(op)
        return out

    def readonly_probe(self, op: Op) -> None:
        """read-only library calls between the operations of a history (traversals, `children`, ancestors): they have no
        effect the invariant or the frame could see; whatever they leave behind inside the library (memoised lists, cached
        paths) must not make a LATER operation or query answer from a stale state.  Deterministic in the history."""
        picks = []
        if op.recv is not None and self.obj(op.recv) is not None:
            picks.append(self.obj(op.recv))
        picks.append(self.objs[op.uid % len(self.objs)])
        for o in picks:
            for call in (lambda: list(o.dfs()), lambda: list(o.gather(AwareASTNode)), lambda: list(o.children),
                         lambda: list(o.bfs()), lambda: list(o.ancestors()), lambda: list(o.dfs(bottom_up=True))):
                try:
                    guarded(call)
                except Hang:
                    return
                except Exception:  # noqa: BLE001
                    pass

    # ---- observation
    def _idc(self, s):
        if s is None:
            return None
        return self.idc.setdefault(s, len(self.idc))

    def dump(self):
        rows = []
        for k, o in enumerate(self.objs):
            p = o.parent
            pf = o.parent_field
            reg = AwareASTNode.get_any(o.id)
            rows.append([
                k, not o.detached,
                None if p is None else (self.t(p) if self.t(p) is not None else A("?")),
                None if pf is None else pf.name, o.parent_index,
                self._idc(o.id), self._idc(o.original_id), self._idc(o.id_collision_with),
                self.cidc.setdefault(o.content_id, len(self.cidc)),
                None if reg is None else (self.t(reg) if self.t(reg) is not None else A("?")),
                str(o.v), o.tag,
                [[f] + [self.t(c) for c in ks] for f, _kd, ks in Z.fields_of(o)],
            ])
        return rows

    def snapshot(self):
        """C19 observables of every known object + the registry"""
        snap = {}
        for k, o in enumerate(self.objs):
            p = o.parent
            pf = o.parent_field
            snap[k] = {
                "attached": not o.detached,
                "parent": None if p is None else self.t(p) if self.t(p) is not None else "?",
                "field": None if pf is None else pf.name,
                "index": o.parent_index,
                "values": (o.v, o.tag, tuple((f, tuple(self.t(c) for c in ks)) for f, _kd, ks in Z.fields_of(o))),
                "id": o.id, "original_id": o.original_id, "id_collision_with": o.id_collision_with,
                "content_id": o.content_id,
            }
        reg = {}
        for key, val in list(AwareASTNode._nodes.items()):
            reg[key] = self.t(val) if self.t(val) is not None else "?"
        return snap, reg

    def frame_diff(self, before) -> list[str]:
        """what a rejected operation changed (C19); empty = frame holds"""
        snap0, reg0 = before
        snap1, reg1 = self.snapshot()
        out = []
        for k, s0 in snap0.items():
            s1 = snap1[k]
            for key in s0:
                if s0[key] != s1[key]:
                    out.append(f"{key}@{k}")
        for key in set(reg0) | set(reg1):
            if reg0.get(key) != reg1.get(key):
                if reg1.get(key) == "?" or (key not in reg0 and reg1.get(key) is not None and reg1[key] >= len(snap0)):
                    out.append("new-node-registered")
                else:
                    out.append(f"registry@{reg0.get(key) if reg0.get(key) is not None else reg1.get(key)}")
        return sorted(set(out))

    # ---- C18 invariant, evaluated on the real objects
    def rebuild(self, o):
        kw = {}
        for f, kind, ks in Z.fields_of(o):
            rs = [self.rebuild(c) for c in ks]
            kw[f] = tuple(rs) if kind == "tup" else rs if kind == "lst" else (rs[0] if rs else None)
        self._rb = getattr(self, "_rb", 0) + 1     # equal twins would otherwise share an auto id
        return type(o)(v=o.v, tag="rebuilt", origin=REBUILD_ORIGIN, create_detached=True, id=f"rebuilt-{self._rb}", **kw)

    def check_inv(self) -> list[str]:
        try:
            return guarded(self._check_inv, 6.0)
        except Hang:
            return ["hang: an upward query (ancestors / get_depth / is_ancestor / calculate_xpath) does not end"]

    def _check_inv(self) -> list[str]:
        bad: list[str] = []
        tk = self.t
        att = [o for o in self.objs if not o.detached]
        holder: dict[int, tuple] = {}
        for o in att:
            for c, f, i in Z.kids_pos(o):
                if c.detached:
                    bad.append(f"child-detached: attached {tk(o)} holds detached {tk(c)} at {f}[{i}]")
                elif c.parent is not o:
                    pp = c.parent
                    bad.append(f"child-parent: {tk(c)} at {tk(o)}.{f}[{i}] reports parent {None if pp is None else tk(pp)}")
                elif c.parent_field is None or c.parent_field.name != f or c.parent_index != i:
                    pf = c.parent_field
                    bad.append(f"child-position: {tk(c)} at {tk(o)}.{f}[{i}] reports {None if pf is None else pf.name}[{c.parent_index}]")
                holder.setdefault(id(c), (o, f, i))
        for o in att:
            p = o.parent
            if p is not None:
                pf = o.parent_field
                ok = False
                if pf is not None:
                    for c, f, i in Z.kids_pos(p):
                        if c is o and f == pf.name and i == o.parent_index:
                            ok = True
                if not ok:
                    bad.append(f"parent-holds: {tk(o)} reports {tk(p)}.{None if pf is None else pf.name}[{o.parent_index}] "
                               "but is not stored there")
                if p.detached:
                    bad.append(f"parent-detached: {tk(o)} has detached parent {tk(p)}")
            if AwareASTNode.get_any(o.id) is not o or type(o).get(o.id) is not o:
                bad.append(f"lookup: get_any(id) of attached {tk(o)} is another object")
        if bad:
            return bad
        roots = [o for o in att if id(o) not in holder]
        # content ids against an independently built equal tree (the structure is consistent here)
        def cmp(o, twin):
            if twin.content_id != o.content_id:
                bad.append(f"content-id: attached {tk(o)} differs from an independently built equal tree")
            for (c, _f, _i), (c2, _f2, _i2) in zip(Z.kids_pos(o), Z.kids_pos(twin)):
                cmp(c, c2)
        for r in roots:
            cmp(r, self.rebuild(r))
        # upward queries against the structure
        for o in att:
            chain = []
            x = o
            while id(x) in holder and len(chain) <= len(att):
                x = holder[id(x)][0]
                chain.append(x)
            anc = list(o.ancestors())
            dep = o.get_depth()
            if [id(a) for a in anc] != [id(a) for a in chain]:
                bad.append(f"ancestors: {tk(o)} yields {[tk(a) for a in anc]} expected {[tk(a) for a in chain]}")
            if dep != len(chain):
                bad.append(f"get_depth: {tk(o)} gives {dep} expected {len(chain)}")
            cids = {id(a) for a in chain}
            for a in att:
                r = a.is_ancestor(o)
                if r != (id(a) in cids):
                    bad.append(f"is_ancestor: {tk(a)}.is_ancestor({tk(o)}) = {r} expected {id(a) in cids}")
            for j, a in enumerate(chain):
                try:
                    d = o.get_depth(relative_to=a)
                except ValueError:
                    d = "ValueError"
                if d != j + 1:
                    bad.append(f"get_depth-relative: {tk(o)} to {tk(a)} gives {d} expected {j + 1}")
        for r in roots:
            if not r.calculate_xpath():
                bad.append(f"xpath: calculate_xpath refused on attached root {tk(r)}")
                continue
            def walk(n, xp):
                if n.xpath != xp:
                    bad.append(f"xpath: {tk(n)} has {n.xpath} expected {xp}")
                for c, f, i in Z.kids_pos(n):
                    walk(c, f"{xp}/@{f}[{i if i is not None else 0}]{Z.cname(c)}")
            walk(r, f"/@root[0]{Z.cname(r)}")
        return bad


# ---------------------------------------------------------------------------------- encoding for the model

def _canon_dump(rows):
    return [[r[0], r[1], r[2], r[3], r[4], r[5], r[6], r[7], r[8], r[9], r[10], r[11], r[12]] for r in rows]


def encode_history(w: World):
    """-> (request line, canonical real observation)"""
    reqs = [s[1] for s in w.steps]
    real = [[s[2], _canon_dump(s[3])] for s in w.steps]
    line = dumps([A("legacy"), Z.class_table_sexp(), [A("ops")] + reqs])
    return line, dumps([A("ok")] + real)


# ---------------------------------------------------------------------------------- generator

class Gen:
    def __init__(self, rng: random.Random, transformers: bool = False, explicit_ids: float = 0.12):
        self.rng = rng
        self.w = World()
        self.next_uid = 0
        self.transformers = transformers
        self.explicit_ids = explicit_ids
        self.history: list[Op] = []
        self.events: list = []          # (op, outcome, label, None | (kind, detail, signature))
        self.dead = False
        self.oracles = True

    def uid(self) -> int:
        self.next_uid += 1
        return self.next_uid

    # -- object pools
    def pool(self):
        w = self.w
        hs = w.holders()
        roots, subs, det = [], [], []
        for o in w.objs:
            if o.detached:
                det.append(o)
            elif o.parent is None and id(o) not in hs:
                roots.append(o)
            else:
                subs.append(o)
        return roots, subs, det

    def name(self, o):
        return self.w.name_of[self.w.t(o)]

    def run(self, op: Op, allow_repeat=False, label="random"):
        """execute; every executed operation is followed by the oracles (frame if rejected, invariant
        if it returned).  After the first failure the history is dead: nothing more is executed."""
        if self.dead:
            return [A("skip"), "dead"]
        out = self.w.exec(op, allow_repeat)
        if out[0] != "skip":
            self.history.append(op)
            ev = last_event(self.w, op.uid) if self.oracles else None
            self.events.append((op, out, label, ev))
            if ev is not None or out[0] == "hang":
                self.dead = True
        return out

    def fresh_leaf(self):
        r = self.rng
        cls = r.choice(["LLeaf", "LLeaf", "LLeaf2", "LFLeaf"])
        op = Op(self.uid(), "new", None, {"cls": cls, "v": r.randint(0, 3), "tag": r.choice(["", "t"]),
                                         "id": None, "org": r.randint(0, 2), "eu": False, "asdup": False,
                                         "det": r.random() < 0.1, "kids": {}})
        out = self.run(op)
        if out[0] == "ok" and out[1] is not None:
            return self.w.objs[out[1]]
        return None

    def fresh_falsy(self):
        """a node that is False in a boolean context: an empty container-like node or a falsy leaf,
        detached or attached"""
        r = self.rng
        cls = r.choice(["LFTup", "LFLst", "LFLeaf"])
        kids = {} if cls == "LFLeaf" else {"items": []}
        op = Op(self.uid(), "new", None, {"cls": cls, "v": r.randint(0, 3), "tag": r.choice(["", "t"]),
                                         "id": None, "org": r.randint(0, 2), "eu": False, "asdup": False,
                                         "det": r.random() < 0.6, "kids": kids})
        out = self.run(op)
        if out[0] == "ok" and out[1] is not None:
            return self.w.objs[out[1]]
        return None

    def pick_child(self, adversarial: float):
        """a node to be used as a child / replacement: mostly usable ones"""
        r = self.rng
        roots, subs, det = self.pool()
        x = r.random()
        if x < adversarial and subs:
            return r.choice(subs)
        if x < 0.45 or not (roots or det):
            return self.fresh_leaf()
        if x < 0.8 and roots:
            return r.choice(roots)
        if det:
            return r.choice(det)
        return r.choice(roots) if roots else self.fresh_leaf()

    def kids_for(self, cls: str, adversarial: float, keep: dict | None = None):
        r = self.rng
        kids = {}
        for fname, kind, allowed in Z.CLASSES[cls]["fields"]:
            def ok(o):
                return o is not None and (r.random() < 0.08 or any(a in Z.CLASSES[Z.cname(o)]["mro"] for a in allowed))
            if kind in ("tup", "lst"):
                n = r.choice([0, 1, 2, 2, 3, 4])
                xs = []
                for _ in range(n):
                    o = self.pick_child(adversarial)
                    if ok(o):
                        xs.append(self.name(o))
                kids[fname] = xs
            elif kind == "opt" and r.random() < 0.35:
                kids[fname] = None
            else:
                o = None
                for _ in range(4):
                    o = self.pick_child(adversarial)
                    if ok(o):
                        break
                kids[fname] = self.name(o) if o is not None else None
        # never the same object twice (admissibility) -- drop repeats, later occurrences lose
        seen = set()
        for f, v in list(kids.items()):
            if isinstance(v, list):
                nv = []
                for x in v:
                    if x not in seen:
                        seen.add(x)
                        nv.append(x)
                kids[f] = nv
            elif v is not None:
                if v in seen:
                    kids[f] = None
                else:
                    seen.add(v)
        return kids

    def gen_new(self, adversarial=0.06):
        r = self.rng
        cls = r.choice(Z.INNER + ["LLeaf"])
        kids = self.kids_for(cls, adversarial)
        for fname, kind, _al in Z.CLASSES[cls]["fields"]:
            if kind == "one" and kids.get(fname) is None:
                o = self.fresh_leaf()
                if o is None:
                    return None
                kids[fname] = self.name(o)
        return Op(self.uid(), "new", None, {
            "cls": cls, "v": r.randint(0, 3), "tag": r.choice(["", "t"]),
            "id": r.choice(EXPLICIT_IDS) if r.random() < self.explicit_ids else None,
            "org": r.randint(0, 2), "eu": r.random() < 0.1, "asdup": r.random() < 0.06,
            "det": r.random() < 0.15, "kids": kids})

    def any_obj(self, prefer: str):
        r = self.rng
        roots, subs, det = self.pool()
        pools = {"att": roots + subs, "det": det, "root": roots, "sub": subs}
        p = pools[prefer]
        if p and r.random() < 0.8:
            return r.choice(p)
        allo = roots + subs + det
        return r.choice(allo) if allo else None

    def gen_op(self):
        r = self.rng
        w = self.w
        if len(w.objs) < 3:
            return self.gen_new()
        kinds = [("new", 30), ("attach", 8), ("detach", 11), ("replace", 17), ("rwith", 14), ("dup", 8)]
        if self.transformers:
            kinds += [("tvisit", 9), ("texec", 9)]
        k = r.choices([k for k, _ in kinds], [wt for _, wt in kinds])[0]
        if k == "new":
            return self.gen_new()
        if k == "attach":
            o = self.any_obj("det")
            return None if o is None else Op(self.uid(), "attach", self.name(o))
        if k == "detach":
            o = self.any_obj(r.choice(["root", "root", "att", "det"]))
            return None if o is None else Op(self.uid(), "detach", self.name(o), {"only_self": r.random() < 0.5})
        if k == "replace":
            o = self.any_obj(r.choice(["att", "att", "sub", "det"]))
            if o is None:
                return None
            ch: dict = {}
            if r.random() < 0.6:
                ch["v"] = r.randint(0, 3)
            if r.random() < 0.15:
                ch["tag"] = r.choice(["", "t", "u"])
            fl = Z.CLASSES[Z.cname(o)]["fields"]
            if fl and r.random() < 0.6:
                newkids = self.kids_for(Z.cname(o), 0.06)
                cur = {f: [self.name(c) for c in ks] for f, _kd, ks in Z.fields_of(o)}
                for fname, kind, _al in fl:
                    if r.random() < 0.5:
                        continue
                    v = newkids[fname]
                    if kind in ("tup", "lst"):
                        mix = [x for x in cur[fname] if r.random() < 0.6] + v
                        r.shuffle(mix)
                        ch[fname] = mix
                    elif v is None and kind == "one":
                        continue
                    else:
                        ch[fname] = v
                # the same object must not end up twice in the new node
                seen = set()
                final = {f: list(v) for f, v in cur.items()}
                for f, v in ch.items():
                    if f not in ("v", "tag"):
                        final[f] = v if isinstance(v, list) else ([] if v is None else [v])
                for f in list(final):
                    nv = []
                    for x in final[f]:
                        if x in seen:
                            continue
                        seen.add(x)
                        nv.append(x)
                    if f in ch:
                        kind = [kd for fn, kd, _ in fl if fn == f][0]
                        if kind in ("tup", "lst"):
                            ch[f] = nv
                        elif not nv and kind == "one":
                            del ch[f]
                        else:
                            ch[f] = nv[0] if nv else None
                    elif len(nv) != len(final[f]):
                        # an unchanged field would share an object with a changed one: drop the change set
                        return None
            bad = [r.choice(BAD_KEYS)] if r.random() < 0.04 else []
            if not ch and not bad:
                ch["v"] = r.randint(0, 3)
            return Op(self.uid(), "replace", self.name(o), {"changes": ch, "bad": bad})
        if k == "rwith":
            o = self.any_obj(r.choice(["sub", "sub", "root", "det"]))
            if o is None:
                return None
            if r.random() < 0.25:
                return Op(self.uid(), "rwith", self.name(o), {"new": None})
            n = self.fresh_falsy() if r.random() < 0.2 else self.pick_child(0.08)
            if n is None or n is o:
                return None
            return Op(self.uid(), "rwith", self.name(o), {"new": self.name(n)})
        if k == "dup":
            o = self.any_obj(r.choice(["att", "det"]))
            return None if o is None else Op(self.uid(), "dup", self.name(o), {"clone": r.random() < 0.4})
        if k in ("tvisit", "texec"):
            o = self.any_obj(r.choice(["root", "root", "sub", "det"]))
            if o is None:
                return None
            return Op(self.uid(), k, self.name(o), {"rules": self.gen_rules(k)})
        return None

    def gen_rules(self, k):
        r = self.rng
        rules = []
        for _ in range(r.randint(0, 3)):
            cls = r.choice(["LLeaf", "LLeaf", "LLeaf2", "LUn", "LTup", "LOpt"])
            v = r.choice([None, 0, 1, 2, 3])
            acts = ["remove", ("set", r.randint(4, 6)), ("fresh", r.randint(7, 9))]
            if k == "tvisit":
                acts.append("raise")
            else:
                acts.append(("fresh2", r.randint(7, 9)))
            rules.append((cls, v, r.choice(acts)))
        return rules

    def step(self):
        for _ in range(8):
            op = self.gen_op()
            if op is None:
                continue
            out = self.run(op)
            if out[0] != "skip":
                return op, out
        return None, None


# ---------------------------------------------------------------------------------- operations built to be rejected

class RejectGen(Gen):
    """adds the stream of operations generated on purpose to be rejected, the rejection arising at
    every possible point: first / middle / last child, direct child or grandchild, detached or
    attached siblings, every kind of receiver"""

    def mk(self, cls, kids=None, det=False, v=None, id=None, eu=False, asdup=False, allow_repeat=False, tag=None):
        r = self.rng
        op = Op(self.uid(), "new", None, {"cls": cls, "v": r.randint(0, 3) if v is None else v,
                                         "tag": r.choice(["", "t"]) if tag is None else tag,
                                         "id": id, "org": r.randint(0, 2), "eu": eu, "asdup": asdup, "det": det,
                                         "kids": kids or {}})
        out = self.run(op, allow_repeat)
        if out[0] == "ok" and out[1] is not None:
            return self.w.objs[out[1]]
        return None

    def leaf(self, det=False):
        o = self.mk(self.rng.choice(["LLeaf", "LLeaf2", "LFLeaf"]), det=det)
        return o

    def sibling(self):
        """a usable child: attached root or detached leaf"""
        x = self.rng.random()
        if x < 0.6:
            return self.leaf()
        if x < 0.8:
            o = self.leaf()
            if o is not None:
                self.run(Op(self.uid(), "detach", self.name(o), {"only_self": False}))
            return o
        return self.leaf(det=True)

    def small_tree(self):
        """an attached root with a few children"""
        r = self.rng
        cls = r.choice(["LTup", "LLst", "LBin", "LMixed", "LUn", "LOpt", "LFTup", "LFLst", "LFUn"])
        kids = {}
        for fname, kind, _al in Z.CLASSES[cls]["fields"]:
            if kind in ("tup", "lst"):
                xs = [self.leaf() for _ in range(r.randint(1, 3))]
                kids[fname] = [self.name(x) for x in xs if x is not None]
            else:
                x = self.leaf()
                kids[fname] = self.name(x) if x is not None else None
        return self.mk(cls, kids)

    def poison_parent(self):
        """a node that is attached under a parent (ParentCollision when used again)"""
        _roots, subs, _det = self.pool()
        if subs and self.rng.random() < 0.5:
            return self.rng.choice(subs)
        t = self.small_tree()
        if t is None:
            return None
        ks = Z.kids_pos(t)
        return self.rng.choice(ks)[0] if ks else None

    def poison_registry(self):
        """a detached node whose id is registered by another object (RegistryCollision when re-attached)"""
        stale = [o for o in self.w.objs if o.detached and AwareASTNode.get_any(o.id) is not None]
        if stale and self.rng.random() < 0.5:
            return self.rng.choice(stale)
        x = self.leaf() if self.rng.random() < 0.6 else self.small_tree()
        if x is None:
            return None
        self.run(Op(self.uid(), "replace", self.name(x), {"changes": {"v": x.v + 4}, "bad": []}))
        return x if x.detached and AwareASTNode.get_any(x.id) is not None else None

    def nest(self, o, depth):
        """wrap o into `depth` detached wrappers (the poison becomes a grandchild ...)"""
        for _ in range(depth):
            if o is None:
                return None
            cls = self.rng.choice(["LUn", "LOpt", "LTup", "LFUn", "LFTup"])
            f = Z.CLASSES[cls]["fields"][0][0]
            o = self.mk(cls, {f: [self.name(o)] if cls in ("LTup", "LFTup") else self.name(o)}, det=True)
        return o

    def kids_with(self, poison, where: str):
        """children for an LTup/LLst/LMixed/LBin with the poison at first / middle / last position"""
        r = self.rng
        n = {"first": r.randint(2, 3), "middle": 3, "last": r.randint(2, 3), "only": 1}[where]
        sibs = [self.sibling() for _ in range(n - 1)]
        sibs = [s for s in sibs if s is not None]
        j = {"first": 0, "middle": len(sibs) // 2 if len(sibs) > 1 else len(sibs), "last": len(sibs), "only": 0}[where]
        if where == "middle" and len(sibs) >= 2:
            j = 1
        seq = sibs[:j] + [poison] + sibs[j:]
        names = [self.name(x) for x in seq]
        cls = r.choice(["LTup", "LLst", "LMixed", "LBin"] if len(seq) == 2 else ["LTup", "LLst", "LMixed"])
        if cls == "LBin":
            return cls, {"left": names[0], "right": names[1]}
        if cls == "LMixed":
            if len(names) >= 2 and r.random() < 0.7:
                # spread over the fields: z, items, a, xs in declaration order
                kids = {"z": names[0], "items": names[1:-1], "a": None, "xs": [names[-1]]}
                return cls, kids
            x = self.leaf()
            return cls, {"z": self.name(x) if x is not None else None, "items": names, "a": None, "xs": []}
        return cls, {"items": names}

    def gen_reject(self):
        """-> (op, label) or None; preparation ops are executed on the way"""
        r = self.rng
        kind = r.choice(["new-dup", "new-dup-deep", "new-twin", "new-parent", "new-registry", "new-id",
                         "attach-parent", "attach-registry", "attach-rootid", "attach-stale-cid",
                         "replace-bad", "replace-dup", "replace-parent", "replace-registry", "replace-ancestor", "twin-sibling",
                         "rwith-subtree", "rwith-none", "rwith-type", "rwith-attach-parent", "rwith-attach-registry",
                         "rwith-ancestor", "rwith-ancestor", "rwith-self", "rwith-falsy"]
                        + (["tvisit-raise", "tvisit-none", "tvisit-type", "texec-type", "tvisit-detached"]
                           if self.transformers else []))
        where = r.choice(["first", "middle", "last"])
        depth = r.choice([0, 0, 1, 2])
        label = f"{kind}|{where}|{'direct' if depth == 0 else 'nested'}"
        if kind == "new-dup":
            x = self.sibling()
            if x is None:
                return None
            cls, kids = self.kids_with(x, where)
            # repeat x once more at another position
            tgt = [f for f, v in kids.items() if isinstance(v, list)]
            if tgt:
                kids[tgt[-1]] = kids[tgt[-1]] + [self.name(x)]
            elif cls == "LBin":
                kids["right"] = kids["left"]
            return Op(self.uid(), "new", None, {"cls": cls, "v": 0, "tag": "", "id": None, "org": 0, "eu": False,
                                               "asdup": False, "det": r.random() < 0.3, "kids": kids}), label
        if kind == "new-dup-deep":
            # the same attached root object reachable twice in the new subtree under two DIFFERENT holders: once below a
            # detached wrapper, once directly (r11-c19-change1: the duplicate was noticed only after the wrapper had adopted it)
            x = self.leaf()
            wr = self.mk("LUn", {"arg": self.name(x)}) if x is not None else None
            if wr is None:
                return None
            self.run(Op(self.uid(), "detach", self.name(wr), {"only_self": True}))
            if not wr.detached or x.detached:
                return None
            pair = [self.name(wr), self.name(x)] if where != "last" else [self.name(x), self.name(wr)]
            return Op(self.uid(), "new", None, {"cls": "LBin", "v": 0, "tag": "", "id": None, "org": 0, "eu": False,
                                               "asdup": False, "det": False, "deep_repeat": True,
                                               "kids": {"left": pair[0], "right": pair[1]}}), label
        if kind == "new-twin":
            a = self.mk("LLeaf", v=9, det=True)
            b = self.mk("LLeaf", v=9, det=True)
            if a is None or b is None:
                return None
            a2, b2 = a, b
            # same origin/tag needed for equal auto ids: retry with explicit ids instead
            a2 = self.mk("LLeaf", v=8, id="tw", det=True)
            b2 = self.mk("LLeaf", v=8, id="tw", det=True)
            if a2 is None or b2 is None:
                return None
            sib = self.sibling()
            names = [self.name(a2)] + ([self.name(sib)] if sib is not None else []) + [self.name(b2)]
            return Op(self.uid(), "new", None, {"cls": "LTup", "v": 0, "tag": "", "id": None, "org": 0, "eu": False,
                                               "asdup": False, "det": False, "kids": {"items": names}}), label
        if kind in ("new-parent", "new-registry"):
            p = self.poison_parent() if kind == "new-parent" else self.poison_registry()
            p = self.nest(p, depth)
            if p is None:
                return None
            cls, kids = self.kids_with(p, where)
            return Op(self.uid(), "new", None, {"cls": cls, "v": r.randint(0, 3), "tag": "", "id": None, "org": r.randint(0, 2),
                                               "eu": False, "asdup": False, "det": False, "kids": kids}), label
        if kind == "new-id":
            roots, subs, _ = self.pool()
            tgt = r.choice(roots + subs) if roots + subs else self.leaf()
            if tgt is None:
                return None
            x = self.sibling()
            kids = {"items": [self.name(x)]} if x is not None else {"items": []}
            # the only way to name an existing id is an explicit one: make a registered node with id "a" first
            holder = self.mk("LLeaf", id="k", v=1)
            _ = holder
            return Op(self.uid(), "new", None, {"cls": "LTup", "v": 0, "tag": "", "id": "k", "org": 0, "eu": True,
                                               "asdup": False, "det": False, "kids": kids}), label
        if kind in ("attach-parent", "attach-registry"):
            p = self.poison_parent() if kind == "attach-parent" else self.poison_registry()
            p = self.nest(p, depth)
            if p is None:
                return None
            cls, kids = self.kids_with(p, where)
            t = self.mk(cls, kids, det=True)
            if t is None:
                return None
            return Op(self.uid(), "attach", self.name(t)), label
        if kind == "attach-stale-cid":
            # a detached chain top -> holder above a still attached subtree that was edited meanwhile (holder's cached
            # content id is stale), next to a child whose id is taken by another object: attach(top) is rejected AFTER the
            # validation walk has passed holder -- nothing, holder's content id included, may have changed
            lf = self.mk("LLeaf", v=r.randint(0, 3))
            mid = self.mk("LUn", {"arg": self.name(lf)}) if lf is not None else None
            holder = self.mk("LUn", {"arg": self.name(mid)}) if mid is not None else None
            other = self.mk("LLeaf", v=r.randint(4, 7))
            if holder is None or other is None:
                return None
            items = [self.name(holder), self.name(other)] if where != "first" else [self.name(other), self.name(holder)]
            top = self.mk("LTup", {"items": items})
            if top is None:
                return None
            self.run(Op(self.uid(), "detach", self.name(top), {"only_self": True}))
            self.run(Op(self.uid(), "detach", self.name(holder), {"only_self": True}))
            self.run(Op(self.uid(), "replace", self.name(lf), {"changes": {"v": lf.v + 4}, "bad": []}))
            self.run(Op(self.uid(), "replace", self.name(other), {"changes": {"v": other.v + 4}, "bad": []}))
            if not (other.detached and AwareASTNode.get_any(other.id) is not None):
                return None
            return Op(self.uid(), "attach", self.name(top)), label
        if kind == "attach-rootid":
            p = self.poison_registry()
            if p is None:
                return None
            return Op(self.uid(), "attach", self.name(p)), label
        if kind == "twin-sibling":
            # the receiver has an EARLIER sibling with equal content (same class, values, origin): a rejected replace() /
            # replace_with() puts the receiver back at ITS position (a roll-back that looks the node up by equality finds the twin)
            v, tag, org = r.randint(0, 3), r.choice(["", "t"]), r.randint(0, 2)
            twins = []
            for _k in range(2):
                out = self.run(Op(self.uid(), "new", None, {"cls": "LLeaf", "v": v, "tag": tag, "id": None, "org": org, "eu": False,
                                                           "asdup": False, "det": False, "kids": {}}))
                if out[0] != "ok" or out[1] is None:
                    return None
                twins.append(self.w.objs[out[1]])
            mid = [self.leaf()] if where == "middle" else []
            names = [self.name(twins[0])] + [self.name(x) for x in mid if x is not None] + [self.name(twins[1])]
            if where == "first":
                extra = self.leaf()
                names = names + ([self.name(extra)] if extra is not None else [])
            par = self.mk(r.choice(["LTup", "LLst"]), {"items": names})
            if par is None:
                return None
            if depth > 0:
                if self.mk("LUn", {"arg": self.name(par)}) is None:
                    return None
            recv = twins[1]
            if r.random() < 0.5:
                return Op(self.uid(), "replace", self.name(recv), {"changes": {"v": v + 1}, "bad": [r.choice(BAD_KEYS)]}), label
            p = self.poison_parent() if r.random() < 0.5 else self.poison_registry()
            if p is None or p is recv:
                return None
            return Op(self.uid(), "rwith", self.name(recv), {"new": self.name(p)}), label
        if kind == "replace-ancestor":
            # replace() of an attached inner node with one of its own (non-root) ancestors among the new children: the
            # ancestor has a parent, so the call is rejected (ParentCollision) -- after the receiver was taken out of its
            # parent; everything is put back
            lf = self.leaf()
            if lf is None:
                return None
            recv = self.mk(r.choice(["LTup", "LLst", "LFTup"]), {"items": [self.name(lf)]})
            if recv is None:
                return None
            sibs = [x for x in (self.leaf(), self.leaf()) if x is not None]
            j = {"first": 0, "middle": 1 if sibs else 0, "last": len(sibs)}[where]
            par = self.mk(r.choice(["LTup", "LLst"]), {"items": [self.name(x) for x in sibs[:j] + [recv] + sibs[j:]]})
            if par is None:
                return None
            chain = [par]
            for _ in range(1 + depth):
                cls2 = r.choice(["LUn", "LTup", "LFUn"])
                top = self.mk(cls2, {"arg": self.name(chain[-1])} if cls2 in ("LUn", "LFUn") else {"items": [self.name(chain[-1])]})
                if top is None:
                    return None
                chain.append(top)
            anc = r.choice(chain[:-1])                 # any ancestor except the root of the tree
            extra = self.leaf() if where != "first" else None
            val = [self.name(anc)] + ([self.name(extra)] if extra is not None else [])
            if where == "last":
                val.reverse()
            return Op(self.uid(), "replace", self.name(recv), {"changes": {"items": val}, "bad": [], "cyc": True}), label
        if kind.startswith("replace-"):
            roots, subs, det = self.pool()
            inner = [o for o in roots + subs + det if Z.CLASSES[Z.cname(o)]["fields"]]
            pools = [[o for o in inner if o in roots], [o for o in inner if o in subs], [o for o in inner if o in det]]
            pools = [p for p in pools if p]
            recv = r.choice(r.choice(pools)) if pools and r.random() < 0.7 else self.small_tree()
            if recv is None:
                return None
            if kind == "replace-bad":
                recv = r.choice(roots + subs + det) if (roots + subs + det) and r.random() < 0.5 else recv
                ch = {"v": 1} if r.random() < 0.5 else {}
                return Op(self.uid(), "replace", self.name(recv), {"changes": ch, "bad": [r.choice(BAD_KEYS)]}), label
            fl = Z.CLASSES[Z.cname(recv)]["fields"]
            cur = {f: ks for f, _kd, ks in Z.fields_of(recv)}
            if kind == "replace-dup":
                # put a node that already sits in an unchanged field into another field, or twice into one
                allk = [c for ks in cur.values() for c in ks]
                if not allk:
                    return None
                x = r.choice(allk)
                f, kd, _al = r.choice(fl)
                if kd in ("tup", "lst"):
                    base = [self.name(c) for c in cur[f] if c is not x]
                    val = base + [self.name(x), self.name(x)] if x in cur[f] or len(fl) == 1 else base + [self.name(x)]
                else:
                    if x in cur[f]:
                        return None
                    val = self.name(x)
                return Op(self.uid(), "replace", self.name(recv), {"changes": {f: val}, "bad": []}), label
            p = self.poison_parent() if kind == "replace-parent" else self.poison_registry()
            if p is None or p is recv:
                return None
            if any(p is c for ks in cur.values() for c in ks):
                return None
            p = self.nest(p, depth)
            if p is None:
                return None
            f, kd, _al = r.choice(fl)
            if kd in ("tup", "lst"):
                keep = [self.name(c) for c in cur[f]]
                j = {"first": 0, "middle": len(keep) // 2, "last": len(keep)}[where]
                val = keep[:j] + [self.name(p)] + keep[j:]
            else:
                val = self.name(p)
            return Op(self.uid(), "replace", self.name(recv), {"changes": {f: val}, "bad": []}), label
        if kind == "rwith-ancestor":
            # the replacement is the receiver's parent / grandparent / the root of its own tree, the receiver at the
            # first / middle / last position of a recursive container
            recv = self.small_tree() if r.random() < 0.6 else self.leaf()
            sibs = [x for x in (self.leaf(), self.leaf()) if x is not None]
            if recv is None:
                return None
            j = {"first": 0, "middle": 1 if sibs else 0, "last": len(sibs)}[where]
            seq = sibs[:j] + [recv] + sibs[j:]
            cls = r.choice(["LTup", "LLst", "LFTup", "LMixed"])
            names = [self.name(x) for x in seq]
            if cls == "LMixed":
                z = self.leaf()
                if z is None:
                    return None
                par = self.mk(cls, {"z": self.name(z), "items": names, "a": None, "xs": []})
            else:
                par = self.mk(cls, {"items": names})
            if par is None:
                return None
            new = par
            if depth > 0:
                # put the parent under a grandparent (and that under a great-grandparent): as soon as the
                # replacement has a parent itself the pre-check rejects.  NOTE: a grandparent that is an attached
                # ROOT is not used: the unchanged library does not reject it, it builds a cycle and never returns
                # (the statement's "never puts a node under its own descendant" excludes such calls).
                cls2 = r.choice(["LUn", "LTup", "LFUn", "LBin"])
                if cls2 == "LBin":
                    y = self.leaf()
                    if y is None:
                        return None
                    top = self.mk(cls2, {"left": self.name(par), "right": self.name(y)})
                elif cls2 == "LTup":
                    top = self.mk(cls2, {"items": [self.name(par)]})
                else:
                    top = self.mk(cls2, {"arg": self.name(par)})
                if top is None:
                    return None
                if r.random() < 0.5:
                    top2 = self.mk("LUn", {"arg": self.name(top)})
                    if top2 is None:
                        return None
                    new = top if r.random() < 0.6 else par
                else:
                    new = par
            return Op(self.uid(), "rwith", self.name(recv), {"new": self.name(new), "cyc": True}), label
        if kind == "rwith-self":
            roots, subs, det = self.pool()
            pools = [p for p in (roots, subs, det) if p]
            if not pools:
                return None
            recv = r.choice(r.choice(pools))
            return Op(self.uid(), "rwith", self.name(recv), {"new": self.name(recv), "cyc": True}), label
        if kind == "rwith-falsy":
            # a falsy replacement for a child (or root / detached receiver)
            roots, subs, det = self.pool()
            recv = r.choice(subs) if subs and r.random() < 0.8 else None
            if recv is None:
                t = self.small_tree()
                ks = Z.kids_pos(t) if t is not None else []
                if not ks:
                    return None
                recv = {"first": ks[0], "middle": ks[len(ks) // 2], "last": ks[-1]}[where][0]
            new = self.fresh_falsy()
            if new is None or new is recv:
                return None
            return Op(self.uid(), "rwith", self.name(recv), {"new": self.name(new)}), label
        if kind.startswith("rwith-"):
            roots, subs, det = self.pool()
            if kind == "rwith-subtree":
                recv = r.choice(roots + subs + det) if roots + subs + det else self.leaf()
                p = self.poison_parent()
                if p is None or recv is None or p is recv:
                    return None
                return Op(self.uid(), "rwith", self.name(recv), {"new": self.name(p)}), label
            if kind == "rwith-none":
                cands = [o for o in subs if o.parent is not None and o.parent_index is None and o.parent_field is not None
                         and dict((f, k) for f, k, _ in Z.CLASSES[Z.cname(o.parent)]["fields"]).get(o.parent_field.name) == "one"]
                if not cands:
                    t = self.mk(r.choice(["LUn", "LBin"]), None)
                    t = self.small_tree()
                    cands = [c for c, f, i in (Z.kids_pos(t) if t is not None else []) if i is None
                             and dict((ff, k) for ff, k, _ in Z.CLASSES[Z.cname(t)]["fields"])[f] == "one"]
                if not cands:
                    return None
                return Op(self.uid(), "rwith", self.name(r.choice(cands)), {"new": None}), label
            if kind == "rwith-type":
                a = self.leaf()
                b = self.leaf()
                c = self.leaf()
                if a is None or b is None or c is None:
                    return None
                t = self.mk("LRestr", {"r": self.name(a), "c": self.name(b), "rs": [self.name(c)]})
                if t is None:
                    return None
                wrong = self.small_tree() if r.random() < 0.6 else self.mk("LTup", {"items": []}, det=True)
                if wrong is None or Z.cname(wrong) in ("LUn",) and where == "middle":
                    return None
                tgt = {"first": a, "middle": b, "last": c}[where]
                return Op(self.uid(), "rwith", self.name(tgt), {"new": self.name(wrong)}), label
            # attach failure of the new node
            p = self.poison_parent() if kind == "rwith-attach-parent" else self.poison_registry()
            p = self.nest(p, max(depth, 1) if kind == "rwith-attach-parent" else depth)
            if p is None:
                return None
            if kind == "rwith-attach-registry" and depth == 0 and r.random() < 0.5:
                new = p
            else:
                cls, kids = self.kids_with(p, where)
                new = self.mk(cls, kids, det=True)
            if new is None:
                return None
            pool = [o for o in r.choice([roots, subs, det] if r.random() < 0.8 else [subs]) if o is not new]
            up = None
            recv = r.choice(pool) if pool else self.small_tree()
            if recv is None or recv is new:
                return None
            _ = up
            return Op(self.uid(), "rwith", self.name(recv), {"new": self.name(new)}), label
        if kind == "tvisit-detached":
            # a DETACHED receiver whose children are attached: roots (fresh wrapper) or members of another tree (stale)
            if depth == 0:
                xs = [self.leaf() for _ in range(3)]
                if any(x is None for x in xs):
                    return None
                recv = self.mk("LTup", {"items": [self.name(x) for x in xs]}, det=True)
            else:
                recv = self.mk("LTup", {"items": [self.name(x) for x in [self.leaf(), self.leaf(), self.leaf()] if x is not None]})
                if recv is not None:
                    self.run(Op(self.uid(), "replace", self.name(recv), {"changes": {"v": recv.v + 4}, "bad": []}))
            if recv is None or not recv.detached:
                return None
            ks = [c for c, _f, _i in Z.kids_pos(recv)]
            if len(ks) < 2:
                return None
            j = {"first": 0, "middle": len(ks) // 2, "last": len(ks) - 1}[where]
            rules = [(Z.cname(ks[j]), ks[j].v, "raise")]
            rules = [(Z.cname(k), k.v, ("set", 5)) for k in ks[:j] if k.v != ks[j].v][:1] + rules
            return Op(self.uid(), "tvisit", self.name(recv), {"rules": rules}), label
        if kind in ("tvisit-raise", "tvisit-none", "tvisit-type", "texec-type"):
            roots, subs, det = self.pool()
            if kind == "tvisit-raise":
                recv = r.choice(roots + subs) if roots + subs and r.random() < 0.7 else self.small_tree()
                if recv is None:
                    return None
                leaves = [o for o in self.w.closure([recv]) if not Z.CLASSES[Z.cname(o)]["fields"]]
                if not leaves:
                    return None
                tgt = {"first": leaves[0], "middle": leaves[len(leaves) // 2], "last": leaves[-1]}[where]
                rules = [(Z.cname(tgt), tgt.v, "raise")]
                if r.random() < 0.5:
                    rules = [(Z.cname(leaves[0]), leaves[0].v, ("set", 5))] + rules if leaves[0].v != tgt.v else rules
                return Op(self.uid(), "tvisit", self.name(recv), {"rules": rules}), label
            if kind == "tvisit-none":
                t = self.small_tree()
                cands = [c for c, f, i in (Z.kids_pos(t) if t is not None else []) if i is None
                         and dict((ff, k) for ff, k, _ in Z.CLASSES[Z.cname(t)]["fields"])[f] == "one"]
                if not cands:
                    return None
                tgt = r.choice(cands)
                return Op(self.uid(), "tvisit", self.name(tgt), {"rules": [(Z.cname(tgt), tgt.v, "remove")]}), label
            a = self.leaf()
            b = self.leaf()
            c = self.leaf()
            if a is None or b is None or c is None:
                return None
            t = self.mk("LRestr", {"r": self.name(a), "c": self.name(b), "rs": [self.name(c)]})
            if t is None:
                return None
            tgt = {"first": a, "middle": b, "last": c}[where]
            if kind == "tvisit-type":
                # the visitor turns the (restricted) child into a node of a class its parent does not accept
                return Op(self.uid(), "tvisit", self.name(tgt), {"rules": [(Z.cname(tgt), tgt.v, ("fresh2", 7))]}), label
            rules = [(Z.cname(x), x.v, ("set", 6)) for x in (a, b, c) if x is not tgt and x.v != tgt.v][:1]
            rules.append((Z.cname(tgt), tgt.v, ("fresh2", 7)))
            return Op(self.uid(), "texec", self.name(t), {"rules": rules}), label
        return None

    def peel_and_reattach(self):
        """a directed SUCCESSFUL scenario: take a tree apart level by level with detach_self(), change something
        below the part that is still attached, and put the whole tree back (attach / a new parent over the top /
        replace_with by the top): content ids must propagate through all re-attached levels"""
        r = self.rng
        depth = r.randint(2, 4)
        node = self.leaf()
        if node is None:
            return
        target = node
        chain = []
        for _ in range(depth + 1):
            cls = r.choice(["LUn", "LOpt", "LTup", "LLst", "LBin", "LFUn", "LFTup", "LMixed"])
            nm = self.name(node)
            if cls in ("LUn", "LFUn"):
                kids = {"arg": nm}
            elif cls == "LOpt":
                kids = {"c": nm}
            elif cls == "LBin":
                y = self.leaf()
                if y is None:
                    return
                kids = {"left": nm, "right": self.name(y)} if r.random() < 0.5 else {"left": self.name(y), "right": nm}
            elif cls == "LMixed":
                y = self.leaf()
                if y is None:
                    return
                kids = {"z": self.name(y), "items": [nm], "a": None, "xs": []}
            else:
                sib = [self.leaf() for _ in range(r.randint(0, 2))]
                names = [self.name(x) for x in sib if x is not None]
                j = r.randint(0, len(names))
                kids = {"items": names[:j] + [nm] + names[j:]}
            node = self.mk(cls, kids)
            if node is None:
                return
            chain.append(node)
        # peel k >= 2 levels from the top
        k = r.randint(2, depth)
        for lvl in range(k):
            self.run(Op(self.uid(), "detach", self.name(chain[-1 - lvl]), {"only_self": True}))
        # change the leaf below the still attached part
        if r.random() < 0.7:
            self.run(Op(self.uid(), "replace", self.name(target), {"changes": {"v": target.v + 5}, "bad": []}))
        else:
            n = self.leaf()
            if n is not None:
                self.run(Op(self.uid(), "rwith", self.name(target), {"new": self.name(n)}))
        top = chain[-1]
        x = r.random()
        if x < 0.6:
            self.run(Op(self.uid(), "attach", self.name(top)))
        elif x < 0.8:
            self.mk("LUn", {"arg": self.name(top)})
        else:
            old = self.leaf()
            if old is not None:
                self.run(Op(self.uid(), "rwith", self.name(old), {"new": self.name(top)}))

    def stale_twin_swap(self):
        """a directed SUCCESSFUL scenario: a detached top node whose content id is STALE (its attached child changed
        while it was out of the registry) replaces an attached node whose content equals the OLD content of that top
        node: the ancestors of the replaced node must see the change although the two content ids compare equal"""
        r = self.rng
        v = r.randint(0, 3)
        tag = r.choice(["", "t"])
        depth = r.randint(1, 3)

        def column(top_cls_seq):
            o = self.mk("LLeaf", v=v, tag=tag)
            if o is None:
                return None, None, []
            leaf, col = o, [o]
            for cls in top_cls_seq:
                o = self.mk(cls, {"arg": self.name(o)} if cls in ("LUn", "LFUn") else {"items": [self.name(o)]}, v=v, tag=tag)
                if o is None:
                    return None, None, []
                col.append(o)
            return leaf, o, col

        seq = [r.choice(["LUn", "LTup", "LLst"]) for _ in range(depth + 1)]
        leaf_a, top_a, col_a = column(seq)          # the one that is taken apart
        leaf_b, top_b, col_b = column(seq)          # its twin, attached below one or two more levels
        if top_a is None or top_b is None:
            return
        holder = top_b
        for _ in range(r.randint(1, 2)):
            cls = r.choice(["LUn", "LTup", "LBin"])
            if cls == "LBin":
                y = self.leaf()
                if y is None:
                    return
                kids = {"left": self.name(holder), "right": self.name(y)} if r.random() < 0.5 else {"left": self.name(y), "right": self.name(holder)}
            elif cls == "LUn":
                kids = {"arg": self.name(holder)}
            else:
                kids = {"items": [self.name(holder)]}
            holder = self.mk(cls, kids)
            if holder is None:
                return
        k = r.randint(1, depth)                      # peel k levels from the top of column a
        for lvl in range(k):
            self.run(Op(self.uid(), "detach", self.name(col_a[-1 - lvl]), {"only_self": True}), label="stale-twin")
        self.run(Op(self.uid(), "replace", self.name(leaf_a), {"changes": {"v": v + 5}, "bad": []}), label="stale-twin")
        self.run(Op(self.uid(), "rwith", self.name(top_b), {"new": self.name(top_a)}), label="stale-twin")

    def reject_step(self):
        for _ in range(6):
            g = self.gen_reject()
            if g is None:
                continue
            op, label = g
            out = self.run(op, allow_repeat=True, label=label)
            if out[0] != "skip":
                return op, out, label
        return None, None, None


# ---------------------------------------------------------------------------------- replay, signatures, shrinking

def replay(ops: list[Op]) -> World:
    """run abstract operations from scratch; unresolvable / inadmissible ones are skipped"""
    w = World()
    for op in ops:
        out = w.exec(op, allow_repeat=True)
        if out[0] == "hang":
            break
    return w


def last_event(w: World, uid: int):
    """-> (kind, detail list, signature) for the step of op `uid` if it is the last step, else None
    kind: 'frame' (rejected and something changed) | 'inv' (returned and the invariant fails) | 'hang'"""
    if not w.steps or w.steps[-1][0].uid != uid:
        return None
    op, _req, out, _dump, before = w.steps[-1]
    if out[0] == "hang":
        return "hang", ["operation does not return"], f"hang|{op.kind}"
    if out[0] == "raise":
        if str(out[1]).startswith("Other-"):
            return None
        d = w.frame_diff(before)
        if not d:
            return None
        return "frame", d, frame_sig(w, op, out, d, before)
    bad = w.check_inv()
    if not bad:
        return None
    return "inv", bad, f"inv|{op.kind}|{bad[0].split(':')[0]}"


def frame_sig(w: World, op: Op, out, diff: list[str], before) -> str:
    kinds = sorted({x.split("@")[0] for x in diff})
    if op.kind in ("tvisit", "texec"):
        snap0, _ = before
        recv = w.names.get(op.recv)
        det = recv is not None and recv in snap0 and not snap0[recv]["attached"]
        # closure of the receiver as it was before the call
        inside = set()
        if recv is not None and recv in snap0:
            st = [recv]
            while st:
                x = st.pop()
                if x in inside or x not in snap0:
                    continue
                inside.add(x)
                for _f, ks in snap0[x]["values"][2]:
                    st.extend(k for k in ks if k is not None)
        toks = {int(x.split("@")[1]) for x in diff if "@" in x and x.split("@")[1].isdigit()}
        where = "inside-receiver" if toks <= inside else "outside-receiver"
        shape = ("detached-receiver," if det else "") + "partial-commit-" + where
    else:
        shape = ",".join(kinds)
    return f"frame|{op.kind}|{out[1]}|{shape}"


def shrink(ops: list[Op], uid: int, want_kind: str, want_sig_prefix: str, budget: int = 120) -> list[Op]:
    """delta debugging over the operations before `uid` (which stays last)"""
    idx = [i for i, o in enumerate(ops) if o.uid == uid]
    if not idx:
        return ops
    prefix, last = ops[: idx[0]], ops[idx[0]]

    def fails(pre):
        nonlocal budget
        if budget <= 0:
            return False
        budget -= 1
        ev = last_event(replay(pre + [last]), uid)
        return ev is not None and ev[0] == want_kind and ev[2].startswith(want_sig_prefix)

    n = 2
    while len(prefix) >= 1 and budget > 0:
        chunk = max(1, len(prefix) // n)
        reduced = False
        for i in range(0, len(prefix), chunk):
            cand = prefix[:i] + prefix[i + chunk:]
            if fails(cand):
                prefix = cand
                n = max(n - 1, 2)
                reduced = True
                break
        if not reduced:
            if chunk == 1:
                break
            n = min(len(prefix), n * 2)
    return prefix + [last]


def run_history(rng: random.Random, length: int, transformers: bool, rejects: int, explicit_ids: float = 0.12):
    """one history: `length` generated operations, then up to `rejects` operations built to be rejected.
    -> generator (g.events: (op, outcome, label, failure) for every executed op; the history stops at the
    first hang / frame failure / invariant failure)"""
    g = RejectGen(rng, transformers=transformers, explicit_ids=explicit_ids)
    for _ in range(length):
        if g.dead:
            break
        g.step()
    if not g.dead and rng.random() < 0.6:
        g.peel_and_reattach()
    if not g.dead and rng.random() < 0.5:
        g.stale_twin_swap()
    for _ in range(rejects):
        if g.dead:
            break
        g.reject_step()
    return g


# ---------------------------------------------------------------------------------- cases for run.py

STATS: dict[str, int] = {}


def _bump(key: str, n: int = 1) -> None:
    STATS[key] = STATS.get(key, 0) + n


def history_cases(rng: random.Random, prop: str, n_prim: int, n_tr: int, length: tuple[int, int], rejects: int):
    """yields run.Case objects for property `prop` ("C18" | "C19") over n_prim histories of primitive
    operations and n_tr histories that also use the transform visitor / transformer (both: K1 against
    the model + oracles)"""
    from run import Case

    for h in range(n_prim + n_tr):
        tr = h >= n_prim
        sub = random.Random(rng.getrandbits(64))
        g = run_history(sub, sub.randint(*length), tr, rejects, explicit_ids=sub.choice([0.0, 0.12, 0.3]))
        w = g.w
        n_ok = sum(1 for e in g.events if e[1][0] == "ok")
        kinds = {e[0].kind for e in g.events if e[1][0] == "ok"}
        depth2 = any((not o.detached) and o.parent is not None and o.parent.parent is not None for o in w.objs)
        nontrivial = n_ok >= 8 and len(kinds) >= 3 and depth2
        _bump("histories")
        _bump("ops_executed", len(g.events))
        for op, out, label, _ev in g.events:
            _bump(f"op|{op.kind}|{out[0]}" + (f"|{out[1]}" if out[0] == "raise" else ""))
            if label != "random":
                _bump(f"directed|{label}|{out[0]}")
        tail = " ; ".join(o.show() for o in g.history[-6:])
        hdesc = f"history#{h} ({len(g.history)} ops{', transformers' if tr else ''}) … {tail}"
        if True:    # histories with the transform visitor / transformer are compared with the model as well
            line, real = encode_history(w)
            _bump("ops_compared_with_model", len(w.steps))
            yield Case("history-k1", line, real, nontrivial, hdesc, sig="k1|history")
        for op, out, label, ev in g.events:
            mine = None
            if ev is not None:
                if ev[0] == "hang" or (prop == "C18" and ev[0] == "inv") or (prop == "C19" and ev[0] == "frame"):
                    mine = ev
            if prop == "C19" and out[0] == "raise" and not str(out[1]).startswith("Other-"):
                if mine is None:
                    yield Case(f"reject|{op.kind}|{out[1]}", None, None, len(w.objs) >= 4,
                               f"history#{h} {label} {op.show()}", sig=f"frame|{op.kind}|{out[1]}")
            if out[0] == "raise" and str(out[1]).startswith("Other-"):
                _bump(f"undocumented|{op.kind}|{out[1]}")
            if mine is not None:
                sh = shrink(g.history, op.uid, mine[0], mine[2])
                ev2 = last_event(replay(sh), op.uid) or mine
                desc = " ; ".join(o.show() for o in sh)
                yield Case(f"{mine[0]}|{op.kind}", None, None, True, desc,
                           oracle_fail=f"{ev2[0]}: " + " | ".join(ev2[1][:6]), sig=ev2[2])
        if prop == "C18":
            bad = [e for e in g.events if e[3] is not None and e[3][0] in ("inv", "hang")]
            if not bad:
                yield Case("history-inv" + ("-tr" if tr else ""), None, None, nontrivial, hdesc, sig="inv|history")
