"""Orchestration of one property check:  build + audit the Lean side, run the correspondence
(real code vs. model driver) over the property's generated cases, apply the known-findings
filter, write evidence, print VIOLATION lines.  See DESIGN.md section 4.

usage: run.py <Cxx> quick|thorough            (env VERIF_SEED, default 0)
       run.py <Cxx> --replay <file>
exit : 0 held / 1 violation / 2 machinery problem (build, audit, timeout, internal error)
"""
from __future__ import annotations

import fcntl
import hashlib
import importlib
import json
import os
import random
import re
import signal
import subprocess
import sys
import time
import traceback
from dataclasses import dataclass, field
from pathlib import Path

VERIF = Path(__file__).resolve().parent.parent
LEAN = VERIF / "lean"
DRIVER = LEAN / ".lake" / "build" / "bin" / "pyoak_model"
REPO = Path(os.environ.get("PYOAK_REPO", "/repo"))
ALLOWED_AXIOMS = {"propext", "Classical.choice", "Quot.sound"}
FORBIDDEN = re.compile(
    r"\bsorry\b|\badmit\b|^\s*axiom\s|native_decide|bv_decide|implemented_by|\bunsafe\s|maxHeartbeats\s+0"
)

BASE_TRUSTED = [
    "Lean 4.33 kernel; axioms limited to propext, Classical.choice, Quot.sound (audited by #print axioms on every run)",
    "hand-written model lean/PyOak/Model/*: tied to /repo only by the differential correspondence of this run",
    "harness glue: generators, S-expression codec, canonicalisation (harness/*.py, lean/PyOak/Sexp.lean, Decode.lean, Handle/*)",
    "CPython object model (frozen dataclasses, dict, weakref, str()/type() texts), hashlib, third-party libs: modelled, not verified",
]


@dataclass
class Case:
    kind: str
    line: str | None = None          # request for the model driver (None: oracle-only case)
    real: str | None = None          # canonical observation of the real code
    nontrivial: bool = True
    desc: str = ""                   # human readable description of the input
    oracle_fail: str | None = None   # set when the in-process oracle of the property failed
    sig: str = ""                    # signature used by known_findings.json
    k2: bool = False                 # mechanism-level comparison (a diff is not by itself a violation)
    index: int = -1
    model: str | None = None


def budget_left(t0, mod, tier) -> int:
    b = getattr(mod, "BUDGET", {"quick": 240, "thorough": 2400})[tier]
    return max(30, int(b - (time.time() - t0)))


class Budget(Exception):
    pass


def _alarm(signum, frame):
    raise Budget()


# ------------------------------------------------------------------ Lean side

def lake_build(log: list[str], pre=None, tie_broken: list | None = None, optional=None, opt_out: list | None = None,
               build_ok=None) -> bool:
    lock = open(LEAN / ".build.lock", "w")
    fcntl.flock(lock, fcntl.LOCK_EX)
    try:
        if pre is not None:
            # regenerated definitions are written under the same lock as the build
            tie_broken += pre(REPO, LEAN) or []
        p = subprocess.run(["lake", "build"], cwd=LEAN, capture_output=True, text=True)
        # every `error: <file>:<line>` line first (a long goal dump must not push them out of the kept tail)
        errs = [l for l in (p.stdout + "\n" + p.stderr).splitlines() if re.match(r"error: (?:\./)?\S+?\.lean:\d+", l)]
        log.append("\n".join(errs[:50]) + "\n" + p.stdout[-4000:] + p.stderr[-4000:])
        ok = p.returncode == 0 and DRIVER.exists()
        if ok and build_ok is not None:
            build_ok(LEAN)
        if ok and optional is not None and opt_out is not None:
            opt_out.append(optional(REPO, LEAN))
        return ok
    finally:
        fcntl.flock(lock, fcntl.LOCK_UN)
        lock.close()


def forbidden_tokens() -> list[str]:
    hits = []
    for p in sorted(LEAN.rglob("*.lean")):
        if ".lake" in p.parts:
            continue
        in_block = 0
        for i, raw in enumerate(p.read_text().splitlines(), 1):
            line = raw
            # strip comments (block comments tracked coarsely, line comments exactly)
            out = ""
            j = 0
            while j < len(line):
                if line.startswith("/-", j):
                    in_block += 1
                    j += 2
                elif line.startswith("-/", j) and in_block:
                    in_block -= 1
                    j += 2
                elif in_block:
                    j += 1
                elif line.startswith("--", j):
                    break
                else:
                    out += line[j]
                    j += 1
            if FORBIDDEN.search(out):
                hits.append(f"{p.relative_to(VERIF)}:{i}: {raw.strip()}")
    return hits


def audit_axioms(module: str, theorems: list[str], work: Path) -> tuple[dict[str, list[str]], str]:
    """returns theorem -> axioms (missing theorem => key absent) and the raw output"""
    src = f"import {module}\n" + "".join(f"#print axioms {t}\n" for t in theorems)
    f = work / "Audit.lean"
    f.write_text(src)
    lock = open(LEAN / ".build.lock", "w")
    fcntl.flock(lock, fcntl.LOCK_EX)     # .olean files must not be rebuilt by a concurrent check while we read them
    try:
        p = subprocess.run(["lake", "env", "lean", str(f)], cwd=LEAN, capture_output=True, text=True)
    finally:
        fcntl.flock(lock, fcntl.LOCK_UN)
        lock.close()
    out = p.stdout + p.stderr
    res: dict[str, list[str]] = {}
    for m in re.finditer(r"'(\S+)' depends on axioms: \[([^\]]*)\]", out, re.S):
        res[m.group(1)] = [a.strip() for a in m.group(2).replace("\n", " ").split(",") if a.strip()]
    for m in re.finditer(r"'(\S+)' does not depend on any axioms", out):
        res[m.group(1)] = []
    return res, out


DRIVER_COPY: list[Path] = []


MODEL_TIMEOUT = "(model-timeout)"


def _drive(exe, lines: list[str], timeout: float) -> list[str] | None:
    try:
        p = subprocess.run([str(exe)], input="\n".join(lines) + "\n", capture_output=True, text=True, timeout=timeout)
    except subprocess.TimeoutExpired:
        return None
    out = p.stdout.split("\n")
    if out and out[-1] == "":
        out.pop()
    if len(out) != len(lines):
        raise RuntimeError(f"driver answered {len(out)} lines for {len(lines)} requests; stderr={p.stderr[-500:]}")
    return out


def run_driver(lines: list[str]) -> list[str]:
    """the model's answers, one per request line.  The model is total and fast on every request a run of the unchanged
    code produces; a request on which it does not answer within the time limit (it can happen when the code under
    examination has drifted so far from the model that the recorded history is inadmissible for the model) is answered
    with `(model-timeout)`, which differs from every real observation and is reported like any other difference."""
    if not lines:
        return []
    exe = DRIVER_COPY[0] if DRIVER_COPY else DRIVER
    out = _drive(exe, lines, 30 + 0.02 * len(lines))
    if out is not None:
        return out
    res = []
    slow = 0
    for ln in lines:
        o = _drive(exe, [ln], 10) if slow < 5 else None
        if o is None:
            slow += 1
            res.append(MODEL_TIMEOUT)
        else:
            res.append(o[0])
    return res


# ------------------------------------------------------------------ known findings

def load_known() -> tuple[dict[str, str], list]:
    f = VERIF / "known_findings.json"
    if not f.exists():
        return {}, []
    d = json.loads(f.read_text())
    known = {f"{e['property']}|{e['signature']}": e.get("what", "") for e in d.get("known", [])}
    return known, d.get("fixed", [])


# ------------------------------------------------------------------ main

def main(argv: list[str]) -> int:
    prop = argv[1]
    replay_file = None
    if argv[2] == "--replay":
        replay_file = Path(argv[3])
        rp = json.loads(replay_file.read_text())
        tier = rp["tier"]
        seed = rp["seed"]
    else:
        tier = argv[2]
        seed = int(os.environ.get("VERIF_SEED", "0") or 0)
    assert tier in ("quick", "thorough")
    t0 = time.time()
    sys.path.insert(0, str(REPO / "src"))
    import pyoak  # noqa

    if not str(Path(pyoak.__file__).resolve()).startswith(str(REPO.resolve())):
        print(f"pyoak imported from {pyoak.__file__}, expected under {REPO}")
        return 2
    try:
        mod = importlib.import_module(f"props.{prop.lower()}")
    except (ImportError, AttributeError) as e:
        # the property module (or a zoo module it loads) could not even be set up against this tree: a public or internal
        # name it relies on is gone / node classes of the zoo are refused.  Never happens on the unchanged tree.  The
        # correspondence cannot run, the property is no longer shown to hold: a broken tie without a failing input.
        rdir = VERIF / "replays"
        rdir.mkdir(exist_ok=True)
        name = f"{prop}-tie-{seed}.json"
        (rdir / name).write_text(json.dumps({
            "property": prop, "tier": tier, "seed": seed,
            "broken": [f"the correspondence harness of {prop} cannot be loaded against this tree: {type(e).__name__}: {e}",
                       traceback.format_exc()[-1500:]],
            "note": "no failing input could be searched for; the property is no longer shown to hold"}, indent=1))
        print(f"VIOLATION property={prop} replay=replays/{name} no-failing-input-found")
        print(f"{prop} {tier} seed={seed}: 0 cases, harness not loadable, 1 violation(s)")
        return 1
    work = VERIF / ".work" / f"{prop}-{os.getpid()}"
    work.mkdir(parents=True, exist_ok=True)
    budget = getattr(mod, "BUDGET", {"quick": 240, "thorough": 2400})[tier]
    signal.signal(signal.SIGALRM, _alarm)
    signal.alarm(budget)
    try:
        return _run(prop, mod, tier, seed, work, t0, replay_file)
    except Budget:
        print(f"check {prop} exceeded its {budget}s budget")
        return 2
    finally:
        signal.alarm(0)
        for p in work.glob("*"):
            p.unlink()
        work.rmdir()


def _run(prop, mod, tier, seed, work, t0, replay_file) -> int:
    budget_s = getattr(mod, "BUDGET", {"quick": 240, "thorough": 2400})[tier]
    log: list[str] = []
    notes: list[str] = []
    # 1-2 build
    pre = getattr(mod, "pre_build", None)
    tie_broken: list[str] = []
    opt_res: list[dict] = []
    built = lake_build(log, pre, tie_broken, getattr(mod, "optional_obligation", None), opt_res, getattr(mod, "build_ok", None))
    if not built:
        # a broken build that comes from regenerated definitions is a broken proof obligation
        gen_related = getattr(mod, "build_failure_is_tie", lambda txt: False)(log[-1])
        if not gen_related:
            print("lake build failed:\n" + log[-1][-3000:])
            return 2
        tie_broken.append("lake build failed on regenerated definitions:\n" + log[-1][:2500])
        # put the last good generated definitions back and build again: the correspondence then runs the model that
        # was proved for the last good source against the code as it is now (a diff there is the concrete replay)
        restore = getattr(mod, "restore_generated", None)
        if restore is not None:
            restore()
            built = lake_build(log, None, [])
    if built:
        # private copy of the driver: a concurrent `lake build` of another check may relink the binary
        import shutil
        lock = open(LEAN / ".build.lock", "w")
        fcntl.flock(lock, fcntl.LOCK_EX)
        try:
            shutil.copy2(DRIVER, work / "pyoak_model")
        finally:
            fcntl.flock(lock, fcntl.LOCK_UN)
            lock.close()
        DRIVER_COPY[:] = [work / "pyoak_model"]
    # 3 audit
    bad = forbidden_tokens()
    if bad:
        print("forbidden tokens in Lean sources:\n" + "\n".join(bad))
        return 2
    theorems: list[str] = list(mod.THEOREMS)
    axioms: dict[str, list[str]] = {}
    discharged = 0
    if built:
        axioms, raw = audit_axioms(mod.LEAN_MODULE, theorems, work)
        for t in theorems:
            if t not in axioms:
                print(f"audit: theorem {t} not found / not compiled\n{raw[-1500:]}")
                return 2
            extra = set(axioms[t]) - ALLOWED_AXIOMS
            if extra:
                print(f"audit: theorem {t} depends on inadmissible axioms {sorted(extra)}")
                return 2
            discharged += 1
    if tie_broken:
        # the theorems that compiled are about the last good generated definitions, not about the source as it is now
        discharged = 0
    optional_report = None
    if opt_res:
        o = opt_res[0]
        optional_report = {"module": o["module"], "theorems": o["theorems"], "reproved": False, "note": o["note"]}
        if o["ok"] and built:
            ax2, raw2 = audit_axioms(o["module"], o["theorems"], work)
            good = all(t in ax2 and not (set(ax2[t]) - ALLOWED_AXIOMS) for t in o["theorems"])
            optional_report["reproved"] = good
            if good:
                theorems += o["theorems"]
                axioms.update(ax2)
                discharged += len(o["theorems"]) if not tie_broken else 0
            else:
                optional_report["note"] = "axiom audit of the optional bridge failed:\n" + raw2[-800:]
        if not optional_report["reproved"]:
            print(f"NOTE: optional obligation {o['module']} not re-proved on this tree ({optional_report['note'].splitlines()[0][:160]}); "
                  f"the property rests on the correspondence for that function")

    # 3b thorough tier: the independent re-checker replays the compiled proofs of the property's module
    leanchecker = None
    if built and tier == "thorough" and replay_file is None:
        signal.alarm(0)
        p = subprocess.run(["lake", "env", "leanchecker", mod.LEAN_MODULE], cwd=LEAN, capture_output=True, text=True)
        signal.alarm(budget_left(t0, mod, tier))
        leanchecker = p.returncode
        if p.returncode != 0:
            print("leanchecker rejected " + mod.LEAN_MODULE + ":\n" + (p.stdout + p.stderr)[-1500:])
            return 2

    # 4 correspondence
    rng = random.Random(seed * 1000003 + sum(map(ord, prop)))
    known, _fixed = load_known()
    violations: list[Case] = []
    k2_diffs: list[Case] = []
    known_hits: dict[str, Case] = {}
    evaluations = 0
    distinct: set[str] = set()
    dist: dict[str, int] = {}
    samples: list = []
    pending: list[Case] = []
    replay_index = None
    if replay_file is not None:
        replay_index = json.loads(replay_file.read_text())["index"]

    def flush():
        nonlocal pending
        reqs = [c for c in pending if c.line is not None]
        outs = run_driver([c.line for c in reqs]) if built else [None] * len(reqs)
        for c, o in zip(reqs, outs):
            c.model = o
        for c in pending:
            failed = None
            if c.oracle_fail:
                failed = "oracle: " + c.oracle_fail
            elif c.line is not None and built and c.model != c.real:
                failed = "model/real differ"
            if replay_index is not None and c.index == replay_index:
                print(f"replay case #{c.index} kind={c.kind}\n  input : {c.desc}\n  real  : {c.real}\n  model : {c.model}"
                      f"\n  oracle: {c.oracle_fail}\n  => {'STILL FAILS' if failed else 'passes now'}")
            if failed:
                if c.k2 and not c.oracle_fail:
                    k2_diffs.append(c)
                    continue
                key = f"{prop}|{c.sig}"
                if key in known:
                    known_hits.setdefault(key, c)
                else:
                    violations.append(c)
            elif len(samples) < 6 and c.nontrivial and (c.index % 97 == 0 or len(samples) < 2):
                samples.append({"kind": c.kind, "input": c.desc[:600], "request": (c.line or "")[:600],
                                "real": (c.real or "")[:400], "model": (c.model or "")[:400]})
        pending = []

    idx = 0

    def guarded_cases():
        """the property module's case stream; an exception that escapes from the code under examination at a point where
        the harness does not expect one (the unchanged code never does that: the harness observes every expected raise
        itself) ends the stream and is reported as a finding on the call that raised, not as a machinery error"""
        it = mod.cases(rng, tier)
        # every fourth case is computed with the library's trace logging switched ON (`pyoak.config.TRACE_LOGGING`: a
        # behaviour-neutral diagnostics flag; debug lines must not consume iterators, reorder work or change results).
        # The flag is a pure function of the case index, so a replay by index sees the same setting.
        try:
            import pyoak.config as _cfg
        except Exception:  # noqa
            _cfg = None
        k = 0
        while True:
            if _cfg is not None and hasattr(_cfg, "TRACE_LOGGING") and getattr(mod, "TRACE_VARIATION", True):
                _cfg.TRACE_LOGGING = (k % 4 == 3)
            k += 1
            try:
                yield next(it)
            except StopIteration:
                return
            except Budget:
                raise
            except Exception as e:  # noqa
                tb = traceback.extract_tb(e.__traceback__)
                lib = [f for f in tb if str(Path(f.filename).resolve()).startswith(str((REPO / "src").resolve()))]
                if not lib:
                    # the harness itself stumbled (an index / key / assertion in generator code): on the unchanged tree
                    # this never happens, so the library has answered in a way the scenario did not foresee and the
                    # correspondence cannot be completed -- a broken tie: the cases seen so far are judged as usual and,
                    # when none of them exhibits a failing input, the violation is reported as no-failing-input-found
                    hw = [f for f in tb if "/harness/" in f.filename]
                    at = f"{Path(hw[-1].filename).name}:{hw[-1].lineno} in {hw[-1].name}" if hw else "?"
                    tie_broken.append(f"correspondence harness could not complete its scenario: {type(e).__name__}: {str(e)[:160]} at {at}")
                    return
                where = lib[-1]
                caller = [f for f in tb if "/harness/" in f.filename]
                at = f"{Path(where.filename).name}:{where.lineno} in {where.name}"
                yield Case("unexpected-exception", None, None, True,
                           f"the library raised {type(e).__name__}: {str(e)[:200]} at {at}"
                           + (f" (called from {Path(caller[-1].filename).name}:{caller[-1].lineno})" if caller else ""),
                           oracle_fail=f"{type(e).__name__} escaped from {at} where the unchanged library returns",
                           sig=f"unexpected-exception|{type(e).__name__}|{where.name}")
                return

    for c in guarded_cases():
        c.index = idx
        idx += 1
        if replay_index is not None and c.index != replay_index:
            if c.index > replay_index:
                break
            continue
        evaluations += 1
        dist[c.kind] = dist.get(c.kind, 0) + 1
        if c.nontrivial:
            h = hashlib.blake2b(((c.line or "") + "|" + c.desc + "|" + c.kind).encode(), digest_size=8).hexdigest()
            distinct.add(h)
        pending.append(c)
        if len(pending) >= 500:
            flush()
        if len(violations) >= 20:
            break
        if evaluations % 50 == 0 and replay_index is None and time.time() - t0 > 0.7 * budget_s:
            # most of the budget is gone (e.g. a change that makes many operations hang until their alarm): report what
            # was found so far rather than running into the budget with the findings unreported
            flush()
            if violations:
                notes.append(f"stopped after {evaluations} cases: 70% of the {budget_s}s budget used, violations already found")
                break
    flush()

    # 5 a broken tie / mechanism-level diff without a failing input is still reported
    rdir = VERIF / "replays"
    rdir.mkdir(exist_ok=True)
    out_lines: list[str] = []
    seen_sig: set[str] = set()
    nviol = 0
    for c in violations:
        if c.sig in seen_sig:
            continue
        seen_sig.add(c.sig)
        nviol += 1
        name = f"{prop}-{hashlib.blake2b((c.sig + c.desc).encode(), digest_size=6).hexdigest()}.json"
        (rdir / name).write_text(json.dumps({
            "property": prop, "tier": tier, "seed": seed, "index": c.index, "kind": c.kind, "signature": c.sig,
            "input": c.desc, "request": c.line, "real": c.real, "model": c.model, "oracle": c.oracle_fail,
            "how": f"./check {prop} --replay replays/{name}"}, indent=1))
        out_lines.append(f"VIOLATION property={prop} replay=replays/{name}")
    if nviol == 0 and (tie_broken or k2_diffs):
        name = f"{prop}-tie-{seed}.json"
        (rdir / name).write_text(json.dumps({
            "property": prop, "tier": tier, "seed": seed,
            "broken": tie_broken + [f"mechanism-level correspondence '{c.kind}' differs on: {c.desc} real={c.real} model={c.model}"
                                    for c in k2_diffs[:5]],
            "theorems": theorems,
            "note": "no observable-level failing input was found by the search; the property is no longer shown to hold"},
            indent=1))
        out_lines.append(f"VIOLATION property={prop} replay=replays/{name} no-failing-input-found")
        nviol = 1
    for key, c in known_hits.items():
        print(f"KNOWN-FINDING: property={prop} {known[key]} [{c.sig}]")
    for l in out_lines:
        print(l)

    if replay_file is None:
        ev = {
            "property_id": prop, "tier": tier, "seed": seed, "level": "proof",
            "coverage": {
                "obligations": len(theorems), "discharged": discharged,
                "checker_cmd": f"cd lean && lake build && lake env lean <Audit: #print axioms of {len(theorems)} theorems in {mod.LEAN_MODULE}>",
                "trusted_base": BASE_TRUSTED + list(getattr(mod, "TRUSTED", [])),
                "theorems": {t: axioms.get(t) for t in theorems},
                "partial": list(getattr(mod, "PARTIAL", [])),
                "evaluations": evaluations, "distinct_nontrivial": len(distinct),
                "rule": mod.RULE, "samples": samples, "distribution": dist,
                "known_findings_hit": sorted(known_hits),
                "tie_broken": tie_broken, "k2_diffs": len(k2_diffs), "leanchecker_exit": leanchecker,
                "optional_obligation": optional_report,
                **(getattr(mod, "extra_coverage", lambda: {})()),
            },
            "assumptions": list(getattr(mod, "ASSUMPTIONS", [])),
            "wall_s": round(time.time() - t0, 2), "violations": nviol,
        }
        if "exhaustive" in ev["coverage"] and not isinstance(ev["coverage"]["exhaustive"], bool):
            ev["coverage"]["exhaustive_scope"] = str(ev["coverage"].pop("exhaustive"))
        (VERIF / "evidence").mkdir(exist_ok=True)
        (VERIF / "evidence" / f"{prop}.json").write_text(json.dumps(ev, indent=1, ensure_ascii=True))
    print(f"{prop} {tier} seed={seed}: {evaluations} cases, {len(distinct)} distinct non-trivial, "
          f"{discharged}/{len(theorems)} theorems, {nviol} violation(s), {len(known_hits)} known, "
          f"{time.time() - t0:.1f}s")
    return 1 if nviol else 0


if __name__ == "__main__":
    try:
        sys.exit(main(sys.argv))
    except SystemExit:
        raise
    except Exception:
        traceback.print_exc()
        sys.exit(2)
