#!/bin/sh
# re-runs the filed behaviour-preserving refactorings (harmless/*/patch.diff) against EVERY registered quick check: all
# must stay quiet.  usage: PYOAK_REPO=<scratch worktree> tools/check_harmless.sh [ids...]   (never patches /repo itself)
cd "$(dirname "$0")/.." || exit 2
R="${PYOAK_REPO:?set PYOAK_REPO to a scratch worktree of /repo}"
[ -z "$(git -C $R status --short)" ] || { echo "$R not clean"; exit 2; }
(cd lean && lake build >/dev/null 2>&1)
checks=${CHECKS:-$(python3 -c "import json;print(' '.join(x['property_id'] for x in json.load(open('MANIFEST.json'))['checks']))")}
for id in ${*:-$(ls harmless)}; do
  git -C $R apply $PWD/harmless/$id/patch.diff 2>/dev/null || { echo "$id: patch does not apply"; continue; }
  bad=""
  for c in $checks; do
    out=$(PYOAK_REPO=$R ./check $c quick 2>&1); rc=$?
    [ $rc -eq 0 ] || bad="$bad $c(rc=$rc)"
  done
  git -C $R checkout -- .
  if [ -z "$bad" ]; then echo "$id: quiet"; else echo "$id: ALARM$bad"; fi
done
