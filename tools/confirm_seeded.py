#!/usr/bin/env python3
"""Confirms a seeded change produced by a sub-agent and files it under /verif/seeded/<id>/.
usage: confirm_seeded.py <worktree> <change dir> <seed id> <property> <needs text>
Checks, in the scratch worktree: patch applies, the pinned suite still reports 244 passed, the demo fails with
the change and passes without it. Then runs ./check <property> quick against /repo with the patch applied (and
removes it again) and records whether a VIOLATION was reported."""
import json, shutil, subprocess, sys
from pathlib import Path

wt, cdir, sid, prop, needs = sys.argv[1:6]
wt, cdir = Path(wt), Path(cdir)
run = lambda cmd, **kw: subprocess.run(cmd, shell=True, capture_output=True, text=True, **kw)
env = f"PYTHONPATH={wt}/src"
assert run(f"git -C {wt} status --short").stdout.strip() == "", "worktree not clean"
r = run(f"git -C {wt} apply {cdir}/patch.diff"); assert r.returncode == 0, r.stderr
t = run(f"cd {wt} && {env} timeout 900 /venv/bin/python -m pytest -q -p no:cacheprovider --timeout=900 2>&1 | tail -1").stdout.strip()
d1 = run(f"cd {cdir} && {env} timeout 300 /venv/bin/python demo.py").returncode
run(f"git -C {wt} checkout -- .")
d0 = run(f"cd {cdir} && {env} timeout 300 /venv/bin/python demo.py").returncode
ok = ("244 passed" in t and "failed" not in t and d1 != 0 and d0 == 0)
print("tests:", t, "| demo with change:", d1, "| without:", d0, "| confirmed:", ok)
if not ok:
    sys.exit(1)
# run our check against a tree with the patch (SEED_CHECK_REPO: a scratch worktree; default /repo itself)
import os
R = os.environ.get("SEED_CHECK_REPO", "/repo")
assert run(f"git -C {R} status --short").stdout.strip() == ""
r = run(f"git -C {R} apply {cdir.resolve()}/patch.diff"); assert r.returncode == 0, r.stderr
try:
    c = run(f"cd /verif && PYOAK_REPO={R} ./check {prop} quick")
finally:
    run(f"git -C {R} checkout -- .")
viol = [l for l in c.stdout.splitlines() if l.startswith("VIOLATION")]
print("check exit", c.returncode, "violations", len(viol))
out = Path("/verif/seeded") / sid
out.mkdir(parents=True, exist_ok=True)
shutil.copy(cdir / "patch.diff", out / "patch.diff")
shutil.copy(cdir / "demo.py", out / "demo.py")
notes = (cdir / "notes.txt").read_text() if (cdir / "notes.txt").exists() else ""
(out / "meta.json").write_text(json.dumps({
    "id": sid, "breaks_property": prop, "needs_to_manifest": needs, "author_notes": notes,
    "confirmed": {"test_suite_with_change": t, "demo_exit_with_change": d1, "demo_exit_without_change": d0,
                  "how": "scratch worktree of /repo outside /repo and /verif; PYTHONPATH=<worktree>/src"},
    "our_check": {"command": f"./check {prop} quick (patch applied to a checkout of /repo HEAD, then git checkout -- .)",
                  "exit": c.returncode, "violation_lines": viol[:3], "caught": c.returncode == 1 and bool(viol)},
}, indent=1))
