#!/usr/bin/env python3
"""debug helper: show the first differing op of a history replay"""
import json, sys
sys.path.insert(0, '/verif/harness')
from proto import loads, dumps
d = json.load(open(sys.argv[1]))
real, model = loads(d['real']), loads(d['model'])
descr = d['input'].split('; ')
for i, (r, m) in enumerate(zip(real, model)):
    if r != m:
        print("first diff at op", i, descr[i] if i < len(descr) else '')
        for a, b in zip(r, m):
            if a != b:
                print("  real :", dumps(a)[:600]); print("  model:", dumps(b)[:600])
        print("history:", '; '.join(descr[:i+1]))
        req = loads(d['request'])
        print("op sexp:", dumps(req[i+1])[:800])
        break
else:
    print("lengths", len(real), len(model))
