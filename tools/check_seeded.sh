#!/bin/sh
# re-runs every filed seeded change against its owning check (quick tier); prints caught / MISSED per change.
# The tree to patch is $PYOAK_REPO (default /repo; use a scratch worktree to leave /repo alone); optional args: ids to run
cd "$(dirname "$0")/.." || exit 2
R="${PYOAK_REPO:-/repo}"
[ -z "$(git -C $R status --short)" ] || { echo "$R not clean"; exit 2; }
(cd lean && lake build >/dev/null 2>&1)
list=${*:-$(ls seeded)}
for id in $list; do
  d=seeded/$id
  prop=$(python3 -c "import json;print(json.load(open('$d/meta.json'))['breaks_property'])")
  git -C $R apply $PWD/$d/patch.diff 2>/dev/null || { echo "$id: patch does not apply (repo moved on)"; continue; }
  out=$(PYOAK_REPO=$R ./check $prop quick 2>&1); rc=$?
  git -C $R checkout -- .
  n=$(echo "$out" | grep -c '^VIOLATION')
  if [ $rc -eq 1 ] && [ $n -gt 0 ]; then echo "$id ($prop): caught ($n)"; else echo "$id ($prop): MISSED rc=$rc"; fi
done
