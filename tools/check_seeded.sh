#!/bin/sh
# re-runs every filed seeded change against its owning check (quick tier); prints caught / MISSED per change
cd /verif
[ -z "$(git -C /repo status --short)" ] || { echo "/repo not clean"; exit 2; }
for d in seeded/*/; do
  id=$(basename $d)
  prop=$(python3 -c "import json;print(json.load(open('$d/meta.json'))['breaks_property'])")
  git -C /repo apply /verif/$d/patch.diff 2>/dev/null || { echo "$id: patch does not apply (repo moved on)"; continue; }
  out=$(./check $prop quick 2>&1); rc=$?
  git -C /repo checkout -- .
  n=$(echo "$out" | grep -c '^VIOLATION')
  if [ $rc -eq 1 ] && [ $n -gt 0 ]; then echo "$id ($prop): caught ($n)"; else echo "$id ($prop): MISSED rc=$rc"; fi
done
