#!/bin/sh
# usage: tools/try_patch.sh <patch.diff> Cxx [Cyy ...]   — applies the patch to /repo, runs the quick checks, undoes it
P="$1"; shift
git -C /repo apply "$P" || { echo "patch does not apply"; exit 2; }
for c in "$@"; do (cd /verif && ./check "$c" quick | tail -4); echo "exit=$? ($c)"; done
git -C /repo checkout -- .
git -C /repo status --short
