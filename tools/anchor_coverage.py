#!/venv/bin/python
"""Which lines of the code a property is anchored in does the quick correspondence of that property execute?
usage: PYTHONPATH=/verif/harness:<repo>/src /venv/bin/python tools/anchor_coverage.py C05 [C07 ...]
Prints, per property, the anchored ranges (properties.jsonl `where` fields) with the executable lines that were NOT
executed while the property's quick cases were generated (the real code runs in-process during generation)."""
import importlib, json, random, re, sys, os
from pathlib import Path
import coverage

VERIF = Path(__file__).resolve().parent.parent
REPO = Path(os.environ.get("PYOAK_REPO", "/repo"))
props = {json.loads(l)["id"]: json.loads(l) for l in open(VERIF / "properties.jsonl")}
sys.argv = sys.argv[:1] + sys.argv[1:]
for pid in sys.argv[1:]:
    p = props[pid]
    cov = coverage.Coverage(source=[str(REPO / "src" / "pyoak")], data_file=None)
    cov.start()
    mod = importlib.import_module(f"props.{pid.lower()}")
    rng = random.Random(sum(map(ord, pid)))
    n = 0
    try:
        for _c in mod.cases(rng, "quick"):
            n += 1
    except Exception as e:  # noqa
        print(pid, "generation stopped:", type(e).__name__, e)
    cov.stop()
    print(f"== {pid}: {n} cases")
    import ast
    files = sorted({re.match(r"(src/\S+?\.py)", m.get("where", "")).group(1) for m in p["anchors"]["mechanism"] + p["anchors"].get("state", [])
                    if re.match(r"(src/\S+?\.py)", m.get("where", ""))})
    for rel in files:
        f = REPO / rel
        try:
            _, stmts, _, missing, _ = cov.analysis2(str(f))
        except Exception as e:  # noqa
            print("   ", rel, "no data:", e)
            continue
        stmts, missing = set(stmts), set(missing)
        tree = ast.parse(f.read_text())
        rows = []
        for node in ast.walk(tree):
            if isinstance(node, (ast.FunctionDef, ast.AsyncFunctionDef)):
                body = {x for x in stmts if node.body[0].lineno <= x <= node.end_lineno}
                ms = sorted(body & missing)
                if body and ms and len(ms) < len(body):
                    rows.append((node.lineno, node.name, len(body) - len(ms), len(body), ms))
        print(f"   {rel}: partially executed functions")
        for ln, name, c, t, ms in sorted(rows):
            print(f"      {name}:{ln}  {c}/{t}  missing {ms[:14]}")
