#!/bin/sh
# usage: tools/eval_harmless.sh <dir with ref*/patch.diff> <scratch worktree of /repo> <logfile>
# applies each behaviour-preserving refactoring to the scratch worktree and runs EVERY registered quick check against it;
# every check must stay quiet (exit 0).  Prints one line per (refactoring, check) that is not quiet.
D=$1; WT=$2; LOG=$3
cd "$(dirname "$0")/.." || exit 2
(cd lean && lake build >/dev/null 2>&1)
checks=$(python3 -c "import json;print(' '.join(x['property_id'] for x in json.load(open('MANIFEST.json'))['checks']))")
: > $LOG
for d in $D/ref*/; do
  r=$(basename $d)
  git -C $WT checkout -q -- . ; git -C $WT apply $d/patch.diff || { echo "$r: NOAPPLY" >> $LOG; continue; }
  for c in $checks; do
    out=$(PYOAK_REPO=$WT ./check $c quick 2>&1); rc=$?
    if [ $rc -ne 0 ]; then echo "$r $c rc=$rc $(echo "$out" | grep -c '^VIOLATION') violations: $(echo "$out" | grep '^VIOLATION' | head -2 | tr '\n' ' ') | $(echo "$out" | tail -1 | cut -c1-200)" >> $LOG; else echo "$r $c quiet" >> $LOG; fi
  done
  git -C $WT checkout -q -- .
done
echo DONE >> $LOG
