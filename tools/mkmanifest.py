#!/usr/bin/env python3
"""Regenerates MANIFEST.json from the table below (run after adding a property check)."""
import json
from pathlib import Path

V = Path(__file__).resolve().parent.parent
ALL = [f"C{i:02d}" for i in range(1, 21)]

CHECKS = {
    "C01": dict(
        technique="Lean 4 proof: the digest pre-image is an injective, self-delimiting encoding of the structural content (framing lemmas over List Char, strong induction on tree size) + differential correspondence (pairs, recorded blake2b pre-images, splice attacks, second hash seed)",
        text="Theorem cid_eq_iff: for every injective digest with no ':' in its output and all well-formed trees, cid a = cid b iff the "
             "trees are content-equal (same class, same comparable (name, type text, value text) set, child fields pointwise content-equal; "
             "absent != present); isEqual_iff; cid ignores uid/origin/truthiness/non-comparable props (cid_ignores) and the declaration "
             "order of fields (cid_perm). Decided modulo digest collisions (blake2b idealised as injective). The model is tied to node.py by "
             "(K2) comparing every recorded blake2b input with the model's cidInput/idInput, (K1) content_id/is_equal on generated pairs "
             "vs the model and vs the statement evaluated on the specs, a separator-splice attack that learns the framing from an observed "
             "pre-image, and rebuilding the same specs under another PYTHONHASHSEED. Lifetime clause (content_id never changes): see C10.",
        note="Trusted: Lean kernel + 3 axioms; blake2b injective with hex output; CPython's type()/str() texts injective per type and "
             "containing no '(' in the type text (validated on generated values); class names identify classes; model tied by correspondence.",
        design="5/C01"),
    "C02": dict(
        technique="Lean 4 proof: model of _eq_fn (class, content_id, root origin, strict zip of dfs streams) decides ContentEq ∧ originsAgree; equivalence laws; + differential correspondence on pairs/triples with origins differing at one position; `_eq_fn` is REGENERATED from node.py on every run and the model is proved equal to it (GenBridge.eqImpl_eq_gen, optional obligation)",
        text="Theorems (all well-formed trees conforming to a class table, injective digest): eqImpl never raises (the strict zip sees "
             "streams of equal length whenever content ids agree), eqImpl = true iff content-equal and origins agree at every position, "
             "reflexive/symmetric/transitive, != is the negation, other class => False. hash constancy is the C10 frame. Correspondence: "
             "a==b, b==a, a!=b, non-node comparisons and hash on generated pairs (origin changed at exactly one position at depth 0..4+, "
             "content mutants, twins) and triples, vs the model and vs the statement evaluated on the specs.",
        note="Trusted: Lean kernel + 3 axioms; blake2b injective (with a collision between trees of different size the real == would "
             "raise ValueError from zip(strict=True)); origin equality = dataclass equality; model tied by correspondence.",
        design="5/C02"),
    "C05": dict(
        technique="Lean 4 proof: implementation-shaped stack/deque/queue loops = recursive pre/post/level-order spec (induction on fuel/weight) + differential correspondence model vs real dfs/bfs/gather; `dfs`, `bfs`, `gather` are REGENERATED from node.py on every run (py2lean_v: explicit stack / deque loops with fuel) and the model is proved equal to them (GenBridgeTraverse.dfs_gen_eq, bfs_gen_eq, gather_gen_eq; optional obligation)",
        text="Theorems (for every tree, every prune/filter, no size bound): dfsImpl = pre-order spec, bottom-up = post-order spec, "
             "bfsImpl = level-by-level spec, gather = filtered pre-order; for all three orders: position soundness, start node never yielded, same positions "
             "(permutations of each other for every prune/filter), filter = post-filtering of the unfiltered stream, a pruned position is offered to the filter and nothing below it is yielded, "
             "keys pairwise distinct (each position exactly once) under NoRepeat, exactly size-1 positions. The model is tied to /repo by running real dfs/bfs/gather/get_child_nodes_with_field and the "
             "compiled Lean definitions on the same seeded trees and predicate subsets; any observable difference is a replayable violation.",
        note="Trusted: Lean kernel + 3 standard axioms; the hand-written model of node.py dfs/bfs/gather and of the generated "
             "child accessor (codegen.py) is tied to the code only by the correspondence (differential testing over seeded "
             "zoo trees incl. falsy children, shared objects, long tuples); callbacks assumed pure.",
        design="5/C05"),
    "C06": dict(
        technique="Lean 4 proof: Tree tables built from one dfs pass answer every upward query exactly as the root-first chain dictates (induction over the dfs stream / chains) + differential correspondence vs real pyoak.tree.Tree; `class Tree` (__init__ and every query method) is REGENERATED from tree.py on every run (py2lean_t) and the model is proved equal to it (GenBridgeTree.*_eq_gen, init_eq_gen; optional obligation)",
        text="Theorems (every tree, unbounded): membership, parent info = actual storage position, ancestors = parent chain, "
             "absolute/relative depth, ValueError for non-ancestors, KeyError for foreign nodes, first ancestor of type, "
             "get_xpath = spelling of the chain, string-level injective (no two nodes share one: xpath_injective) and followable from the root "
             "(follow_getXpath); NoRepeat shown necessary by a decide-checked counterexample. Correspondence: "
             "all queries on all nodes / sampled pairs / content-identical foreign twins on seeded trees, plus an oracle that "
             "get_xpath values are pairwise distinct and can be followed from the root.",
        note="Trusted: Lean kernel + 3 standard axioms; dict-keyed-by-node = map keyed by object identity under the "
             "statement's precondition (all nodes registered => distinct ids); hand-written model of tree.py tied by correspondence.",
        design="5/C06"),
    "C07": dict(
        technique="Lean 4 proof: bottom-up matcher over Tree tables = top-down documented semantics `sat` (reversal theorem), findall worklist sound/complete/duplicate-free w.r.t. `sat`; the element test and the bottom-up matcher are REGENERATED from match/xpath.py on every run (py2lean_k) and bridge theorems prove the model equal to them (match_gen_eq_sat) + differential correspondence (parse, findall, find, match on every node) vs real ASTXpath; `ASTXpath.findall` (dummy root, `_unwrap`, the three nested loops) is regenerated too (py2lean_x) and bridged: GenBridgeFindall.findall_eq_gen (optional obligation, audited together with the matcher bridge)",
        text="Theorems (every tree without repeated objects, every element list): match(root, n) computed from the Tree tables = sat(chain of n); "
             "findall yields exactly (and once) the positions whose chain satisfies sat; find = head of findall; hence n in findall iff match. "
             "Parser: parseXPath (lexer with maximal munch, recursive descent, transformer walk) returns exactly the denoted elements for every rendering of every "
             "well-formed path with arbitrary whitespace between tokens (parseXPath_render, all index digits significant, relative = leading //). Correspondence compares elements, findall order, "
             "find and match for every node on seeded trees with tuples up to 14 and derived + random + mutated xpaths.",
        note="Trusted: Lean kernel + 3 axioms; lark's LALR/contextual lexer re-modelled by hand; dict de-duplication keyed by object identity; "
             "tie: correspondence for everything + translation for _match_node_element (required bridge: a broken bridge is a broken obligation) and _match_node_xpath (optional bridge: when it "
             "does not re-prove, the evidence says so and the correspondence carries that function); the lark grammar is re-modelled by hand.",
        design="5/C07"),
    "C03": dict(
        technique="Lean 4 proof: registry state machine (id assignment, detach, replace, duplicate, _deserialize, weak-value gc) preserves the invariant by induction over operation histories, for an arbitrary digest function + op-by-op differential correspondence with the real NODE_REGISTRY; `_get_next_unique_id`, `get`, `get_any`, `detach_self`, `detach` are REGENERATED from node.py on every run (py2lean_r) and the model is proved equal to them (GenBridgeRegistry.*_eq_gen; optional obligation)",
        text="Theorems (any history, any digest function incl. colliding ones): registry keys pairwise distinct, lookup under k returns a node whose id is k, "
             "detached nodes are never returned, after every operation only live nodes are registered (inv_step, inv_run, regLive_run); every live, "
             "not-detached node is registered under its own id (liveRegistered_run) — for as_obj under the decidable hypothesis that no forced "
             "serialized id is occupied (the excluded point is known finding F19, with a decide-checked witness and a replay on the real code in every run); "
             "freshId returns a free key (pigeonhole: the fuel of the unique-id search suffices) and the base digest itself when that is free; a raising "
             "replace leaves the registry unchanged. Correspondence: after each op of random histories (ID_DIGEST_SIZE 1/2/8) the whole registry, "
             "liveness of every object ever created, sampled get(strict/non-strict) and outcomes are compared with the model; the live-registered clause "
             "is also evaluated directly on the real objects.",
        note="Trusted: Lean kernel + 3 axioms; CPython refcounting/gc and WeakValueDictionary semantics (quiescent points); digests are inputs of the model; "
             "model tied to node.py by correspondence. Partial: liveRegistered for as_obj needs noClash (F19 known finding).",
        design="5/C03"),
    "C04": dict(
        technique="Lean 4 proof on the registry machine + origin/source codec model: _deserialize re-uses registered originals, re-creates the others under their serialized ids with classes/shape/sharing preserved and never overwrites a live foreign entry + round-trip oracle on the real code (4 formats x options x liveness x fresh process)",
        text="Theorems: deser_reuse(_all) (registered originals come back as the identical objects, state unchanged), deser_fresh_ids/Realizes (nodes whose id is free are "
             "new, registered under exactly the serialized id, same class, children in order), deser_shared (a node occurring twice is one shared object), "
             "deser_never_overwrites_live (under noClash); origin / source / position codec and the process-global source registry (Model/OriginCodec): origin_roundtrip for every origin kind "
             "incl. nested multi-origins with derived fields recomputed, singletons_roundtrip (No* come back as the singletons), source_roundtrip, load_roundtrip and source_index_roundtrip / "
             "origin_index_roundtrip (index-based serialization round-trips once the separately serialized sources are loaded into an empty registry in serialization order; the preconditions are "
             "shown necessary by decide-checked counterexamples, one of which is the known finding F24). Partial by nature: mashumaro's generated codecs and orjson/msgpack/PyYAML are third-party and only "
             "exercised: every generated tree (all property kinds, all origin kinds incl. No* singletons, shared subtrees, ids with collision suffixes) is "
             "round-tripped in dict/JSON/MessagePack/YAML with originals all alive / none / random subtrees / in a fresh process and compared position by "
             "position (identity or class, id, content_id, props, origin; sharing; == original).",
        note="Trusted: third-party codecs decode what they encode (exercised); property-value codec not modelled; index-based source serialization exercised in-process and across processes (sources loaded first); "
             "registry half tied by the C03 correspondence (as_obj histories).",
        design="5/C04"),
    "C08": dict(
        technique="Lean 4 proof: model of the PatternDefInterpreter-built matcher graph (capture bookkeeping, sequence tail split, ctx threading, multi matcher) = recursive specification over the pattern syntax tree; regex engine and content equality are parameters + differential correspondence on (pattern text, node) incl. cache histories",
        text="Theorems (every accepted pattern, value, context): run = spec (verdict, capture dict = the very objects, definition error for unbound variable impossible after compile), failure => empty dict, "
             "capture names unique, MultiPatternMatcher returns the first matching rule, tail length exact, naming a sequence keeps its tail. Correspondence: pattern texts generated from the grammar "
             "(class alternatives/subclasses, *, 0-4 field specs, nesting <= 3, sequences of every length with/without tail vs tuples shorter/equal/longer, captures everywhere, variables, twins with other origins), "
             "each case with cold cache, warm cache and after unrelated compilations in shuffled order; regexes restricted to a sub-language the driver implements.",
        note="Trusted: Python `re` (abstract parameter in the theorems; sub-language engine in the driver), lark re-modelled by a hand-written scanner-less parser; don't-cares of DESIGN 4.1 (sequence vs str field, regex vs node/tuple value, float/int through $var).",
        design="5/C08"),
    "C09": dict(
        technique="Lean 4 proof: implementation-shaped accept / _transform_children / generic_visit model = nearest-MRO dispatch and bottom-up rewrite spec; identity of unchanged subtrees, new ancestors of changes + differential correspondence with generated visitor classes",
        text="Theorems (all trees, all rule tables): dispatch = nearest class in the MRO (strict: own class only), transform = bottom-up rewrite T, unchanged subtree is the "
             "very same object (unchanged tree returns itself), every generic-dispatched ancestor of a change is a new object, removed tuple elements dropped in order, "
             "removed single children become None, input untouched. Correspondence: visitors generated with type() from rule tables (keep/rewrite/replace/remove/raise, "
             "strict and non-strict, methods on base classes only) on zoo trees; result compared structurally with identity tokens.",
        note="Trusted: Lean kernel + 3 axioms; dataclasses.replace semantics; hand-written model tied by correspondence; transform_eq_spec assumes distinct field names per node.",
        design="5/C09"),
    "C10": dict(
        technique="Lean 4 proof: frame theorem on the registry machine (no step changes a pre-existing heap record) + frame monitor on the real code after every public operation",
        text="Theorems: heap_frame / heap_frame_all / heap_frame_run: every pre-existing object record (class, id, digest, children) is unchanged by every operation of any history; "
             "only as_obj may set the id of an object it created in the same step. The theorem is thin by construction (append-only heap); the weight is on the monitor: "
             "before/after every operation of random histories (registry ops, traversals, Tree queries, xpath, patterns, visitors and raising transformers, 4 serializers, "
             "==, hash, rich) every field of every pre-existing live node is re-read by identity and hash() compared; setattr/delattr on every field of every zoo class must raise.",
        note="Trusted: CPython frozen dataclasses / object.__setattr__ discipline; the monitor is exploration of the real code (callbacks assumed not to mutate nodes).",
        design="5/C10"),
    "C11": dict(
        technique="Lean 4 proof: model of typing.py's classification (hasNode / valid child / valid property, two-phase check, NewType unwrapping, override merge) = inductive shape predicates, for every annotation term + differential correspondence on generated class definitions (plain/postponed, Optional spellings, inheritance)",
        text="Theorems (all Ty terms, structural induction): classify = child iff ChildShape, = prop iff no node and no mutable collection mentioned, else reject; exactly one verdict; "
             "no node hidden in a property; invariance under NewType wrapping; class-level outcome and inherited/overridden fields. Correspondence: class definitions "
             "rendered from random (depth<=3) and exhaustive (depth<=2) Ty terms in 4 spellings and inheritance chains; verdict + get_child_fields/get_property_fields membership.",
        note="Trusted: typing-module introspection (get_type_hints/get_origin/get_args), mashumaro's own refusals excluded from generation; model tied by correspondence.",
        design="5/C11"),
    "C12": dict(
        technique="Lean 4 proof: dataclass field-order resolution + the generated accessor bodies (sorted/unsorted branches, skip chain) + static get_property_fields = filter-by-flags ∘ declaration/name order, for every class hierarchy, instance and flag vector; the loop body of the static get_property_fields is REGENERATED from node.py on every run and proved equal to the model (GenBridge.propertyFieldYielded_eq_gen) + differential correspondence on generated hierarchies in every first-use order",
        text="Theorems (35): fields = declaration order of the hierarchy with overrides in their slot; every child/property accessor = spec (values, fields, indices from 0, absent "
             "optionals omitted, a user property yielded unless non-comparable & skip_non_compare or non-init & skip_non_init, id/content_id/origin by their own flags); static and instance variants "
             "agree; sorted variant = name order; results independent of child truthiness and of which class of a hierarchy was used first (per-class installation). Correspondence: generated "
             "hierarchies (1-3 levels, overrides, init=False, compare=False, kw_only), every order of first use, all 2^5 x 2 flag combinations, empty tuples / absent optionals / falsy children.",
        note="Trusted: dataclasses.fields() order semantics, exec of generated source; model tied by correspondence. Sorted child enumeration = stable sort of the unsorted edge list by field name (C12Extra).",
        design="5/C12"),
    "C13": dict(
        technique="Lean 4 proof: model of is_instance in code order = conformance relation of the statement, invalid_fields = filter of non-conforming fields + differential correspondence on an (annotation, value) matrix and node constructions with the switch on/off",
        text="Theorems (all values, all accepted annotations outside listed don't-cares): isInstance = conforms (bool not int, int for float, None only where allowed, tuples element-wise / exact length, "
             "literals, unions, NewType at any depth, mappings), invalid_fields exact, switch off => no validation and same node. Correspondence: exhaustive depth<=2 in thorough.",
        note="Trusted: Lean kernel + 3 axioms; don't-cares: bool offered for float, Literal members == across kinds; model tied by correspondence.",
        design="5/C13"),
    "C14": dict(
        technique="Lean 4 proof on the registry machine: duplicate creates only new registered objects with ids unused by registered originals and an isomorphic copy; replace / dataclasses.replace id and registration post-conditions + op-by-op correspondence and oracles on the real objects",
        text="Theorems: dup_fresh, dup_copy, dup_independent, replace_new_id (original unregistered, new id = freshId without the original; the original's id when the digest is unchanged), "
             "dcReplace_new_id (original stays registered, new id differs). Real-code oracles in every history: duplicate == original with equal content_id/props/origin at every position, "
             "all nodes new/registered/ids disjoint; unchanged init fields are the very same objects; registration effects; compared op by op with the model.",
        note="Trusted: dataclasses.replace semantics; digests are inputs; tied by correspondence.",
        design="5/C14"),
    "C15": dict(
        technique="Lean 4 proof over definitions REGENERATED from origin.py by a Python-AST->Lean translator on every run (interval laws by grind) + hand model of merge/concat/MultiOrigin + exhaustive-grid differential correspondence",
        text="Theorems about the generated kernels (validity, containment partial order, overlap symmetric incl. touching, a<b iff end<start, hull contains/commutative/associative/idempotent) and the "
             "hand model (flat multi-origins listing the non-empty operands in order, NoOrigin/single cases, same-source overlapping code origins add to the hull with exact get_raw slice, fqn composition). "
             "A semantic change of a kernel breaks a proof obligation; the last good generated definitions are then put back, and the correspondence on the exhaustive grid plus the in-process oracles produce the failing input.",
        note="Trusted: the translator (validated by running generated definitions against the real methods on the grid), Python comparison reflection rule; == level laws under coherence of points.",
        design="5/C15"),
    "C16": dict(
        technique="Lean 4 proof: model of the process-global option state with try/finally reset and of the recursive (de)serialization hooks; reset_after for every outcome, output-shape theorems by induction on the object tree + differential correspondence on call sequences with injected failures; `as_dict` / `as_obj` (slot assignments, try / finally reset, body as a parameter) are REGENERATED from serialize.py on every run (py2lean_s) and the explicit try/finally model is proved equal to them (GenBridgeSerOpts.as_dict_eq_gen, as_obj_eq_gen, reset_after_gen; optional obligation)",
        text="Theorems: globals are default after every call whether it returned or raised at any nested object; each call's output depends only on its own arguments; with key sorting every nested mapping "
             "lists the tag first and the rest sorted; with tag suppression no nested mapping carries a tag; by default every object except No* placeholders / index references does; explorer dialect lists child fields.",
        note="Trusted: mashumaro hook protocol; model tied by correspondence (sequences of 2-6 calls, every option subset, failures at every nested position).",
        design="5/C16"),
    "C17": dict(
        technique="Lean 4 proof: the model parsers (xpath and pattern: lexer + recursive descent mirroring lark's contextual lexer/LALR) accept every rendering of every well-formed syntax tree with arbitrary whitespace between tokens and return its denotation; totality of the real entry points decided by outcome-class correspondence on derived, mutated and random texts",
        text="Theorems: parse_render / pattern_accepts_rendering / pattern_ws_irrelevant (full pattern grammar incl. escaped strings), accepts_wellformed (interpreter checks: node classes, compiling regexes, fresh capture names, variables after captures), "
             "xpath_accepts_rendering / xpath_relative / xpath_ws_irrelevant / xlex_render (all digits significant), compile_total. Partial by nature: 'no other exception escapes' and the agreement of validate_pattern / from_pattern "
             "(cold, cached) / MultiPatternMatcher are facts about Python exception flow and caches, decided by the correspondence: outcome class in {ok + behaviour probes, definition error, OTHER} on grammar-derived texts, single-token mutations, "
             "unknown / non-node class names and random strings over the grammar alphabet.",
        note="Trusted: lark LALR + contextual lexer re-modelled by hand (a disagreement on garbage input would be a false alarm of the check, to be fixed in the model); Python `re` compile; whitespace only between tokens and after the last one.",
        design="5/C17"),
    "C18": dict(
        technique="Lean 4 proof: heap + registry state machine of the legacy parent-aware nodes as coded; the structural-consistency invariant is preserved by EVERY operation that returns (construct, attach, detach, detach_self, duplicate, replace, replace_with a node / an attached root / None, for any receiver) and hence along every history (inv_step, inv_run); transform visitor and transformer modelled as runs of these primitives driven by a rule table (inv_tvisit_partial / inv_texec_partial: side condition = well-formed requests) + op-by-op differential correspondence (state dump of every object after every op, transformers included) and the invariant oracle on the real objects",
        text="Theorems: inv_init, inv_step for every LOp (all states, no admissibility hypothesis: the repaired _attach rejects a node that would end up at two positions; a detach() that returns proves there is no cycle through the receiver: detach_no_cycle), "
             "inv_run / inv_run_init over histories, parent_is_holder / holder_is_parent, ancestors_chain, cid_eq_spec (cached content id = that of an independently built equal tree: changes reach all ancestors), "
             "replace_with: remove-child variant with the index shift (replaceChild_none_inv), attached-root replacement (takeOver_attach_invX), receiver with or without parent (replaceWith_inv). "
             "Transformers: tvisit / texec are runs of primitive steps (tvisit_is_run, texec_is_run), preserve Inv when every constituent request is well-formed (…_partial), leave the state unchanged when no rule matches (texec_unchanged). "
             "Everything is also covered by the correspondence and by evaluating the invariant directly on the real objects after every operation.",
        note="Full proof for the node operations; for the transformers the well-formedness of the rule-made requests is a hypothesis (see PARTIAL in evidence). Trusted: sha256 idealised; Python object model of mutable dataclasses; user callbacks represented by rule tables; model tied by correspondence; hangs guarded by a 2 s CPU alarm per library call.",
        design="5/C18"),
    "C19": dict(
        technique="Lean 4 proof: failure-frame theorems on the legacy state machine (a rejected construct / attach / replace / replace_with / duplicate leaves every pre-existing record and the registry unchanged); transform visitor rejected while its clone is visited: frame theorem (fail_frame_tvisit_in_visit); the transformers' partial commits are proved NOT to satisfy the frame on decide-checked witnesses (known findings) + op-by-op differential correspondence and the frame oracle on the real objects for every rejected operation of a directed stream of to-be-rejected ops",
        text="Theorems: fail_frame_new, fail_frame_attach (state unchanged), detach_never_rejected, fail_frame_replace_keys, fail_frame_replace (the repaired rollback, any receiver, under Inv), "
             "fail_frame_rwith (any rejection incl. failed attach of the new node: rollback restores exactly the original records and lookups), fail_frame_dup. Transformers: fail_frame_tvisit_in_visit (unconditional, for an attached receiver rejected during the visit of its clone), tvisit_fail_before_commit_frame_partial / tvisit_fail_at_only_commit_frame_partial, witnesses texec_partial_commit_fails / tvisit_detached_partial_commit_fails for the three known findings; everything is also explored by the frame oracle "
             "(rejections arising at first / middle / last child, direct child or grandchild, attached or detached arguments). Three known findings (transformers commit node by node, no roll-back across nodes) are listed by signature.",
        note="Full proof for the node operations; transformers: frame proved up to the first commit, the multi-commit cases are known findings (known_findings.json: C19 frame|texec…, frame|tvisit…) with Lean witnesses. Trusted as C18.",
        design="5/C18"),
    "C20": dict(
        technique="Lean 4 proof: legacy dfs/bfs/gather loops simulate the C05 loops (start node offered like any position), legacy xpath match = `sat` via the C07 reversal theorem, calculate_xpath spells chains + differential correspondence on legacy trees; the legacy `_match_node_xpath` is REGENERATED from legacy/match/xpath.py on every run and bridged to the heap-level matcher and to `sat` (GenBridgeLX.lmatchH_eq_gen, legacy_gen_eq_sat; optional obligation)",
        text="Theorems: ldfs/lbfs/lgather = [start offered to filter/prune] ++ C05 spec (skip_self: exactly the C05 spec), legacy match = documented semantics along the parent chain (all index digits), "
             "token-level parse/render for the legacy transformer, calculate_xpath assigns exactly the chain spellings. Character-level lexer modelled and exercised, not proved.",
        note="Trusted: C18 invariant (parent/field/index agree with storage) on attached trees; lark re-modelled; tied by correspondence.",
        design="5/C20"),
}

TODO_REASON = "check not built yet in this revision (planned, see DESIGN.md section 5); no claim is made"


# what the audit passes (AUDIT.md) added on top of the first statement of each check; appended to the level text
EXTRA = {
    "C01": "Audit additions: both directions separately (cid_of_contentEq, not_contentEq_of_cid_ne), the field-wise reading of content "
           "equality (contentEq_iff_fields / contentEq_iff_same / triples_eq_iff / absent_ne_present), non-vacuity of the hypotheses; "
           "`is_equal` is regenerated from node.py on every run and proved equal to the model (GenBridgeIsEq.isEqual_eq_gen, optional obligation).",
    "C03": "Audit additions: lookup_complete / lookup_only_own_class / lookup_unique (get finds exactly the live node of that id and class), "
           "registered_ids_distinct, live_ids_distinct, detach_unregisters / detach_not_returned; the serializer of the registry machine is inside the model (Model/RegistrySer).",
    "C04": "End-to-end on the registry machine: serOf (the payload as a function of the heap), roundtrip_alive / roundtrip_fresh / roundtrip_iso / "
           "roundtrip_fresh_process, clash_free from acyclicity, and the same over every history (roundtrip_alive_history, roundtrip_fresh_history). "
           "Property VALUES: Model/ValueCodec (mashumaro's per-annotation codec) with dec_enc under the decidable side condition Ty.rt and decide-checked "
           "witnesses for the three listed findings F31-F33; standard-library scalars (timestamps, dates, times, durations, decimals, UUIDs, fractions, bytes) "
           "are covered by a round-trip oracle in all four formats (found F34, fixed).",
    "C05": "Audit additions (q6): an independent path-level spec (Spec/Traverse: trails = chains of stored positions) and dfs_eq_trails / dfs_bottom_up_eq_trails / bfs_eq_trails "
           "(each implementation loop = its trail enumeration, any prune / filter); exactly-once WITH shared objects under WellKeyed only (dfs_enumerates_paths, "
           "dfs_bottom_up_enumerates_paths, bfs_enumerates_paths: injective, onto all non-empty paths, in lexicographic / post / short-lex order); bfs tied to depth "
           "(level_iff_depth, bfs_concat_depth, bfs_depth_sorted_chain); the lookup form of position soundness (dfs_yield_lookup, bfs_yield_lookup, gather_yield_lookup: "
           "field found by name, tuple => nodes[i] is the node, single => index None); gather_spec (one equation); hypotheses derived from WFN (wellKeyed_of_wfn).",
    "C09": "Audit additions (q7): an independent rewrite spec Rw (no counter, no changed flag, no fuel, no dispatch) and T_strip / transform_strip (the model's transform = Rw up to "
           "object identities, under coherence hypotheses shown necessary by decide witnesses); transform_no_fuel / transform_err (the only error is the visitor's own raise); "
           "dispatch_own (the full decision table: own class's method, strict or not; nearest base for non-strict; generic otherwise); new_uids / new_ne_input (created objects have "
           "pairwise distinct new identities), changed_ancestors_new_rw, unchanged_semantic, raise_propagates. The handler cross-checks transform against Rw and dispatch against the table on every request.",
    "C11": "Audit additions (q8): classify_trichotomy; one general theorem per rejected shape of the statement at any depth (mutable_rejected, mixed_union_rejected, node_in_container_rejected, "
           "opt_in_tuple_rejected, nested_tuple_rejected, optional_tuple_rejected, node_never_prop); forward references (classify_resolveFwd, classify_deferAll, reject_moves_to_definition, "
           "accepted_iff_resolved_passes); NewType erasure with the weakest side condition (classify_erase_weak, classify_erase_cases; witnesses that it is needed, confirmed on the real code); "
           "union member permutation at any depth (classify_permEq, classify_union_perm); never_silently_prop, fieldVerdict_most_derived (no distinct-names hypothesis); the link to the accessor "
           "model: resolve_eq_effective and field_lands_in_exactly_one (child / property tables disjoint and exhaustive, kinds agree; c11-fkind correspondence with FieldTypeInfo.is_collection).",
    "C15": "Audit additions (q9): totality and validity preservation (add_total, concat_total, add_ok, concat_ok, merge_valid); source `==` is an equivalence, mergeable_symm, mkMulti_common / "
           "mkMulti_common_perm (common source iff pairwise ==; otherwise the set of ALL member sources in operand order: sourceSet_keeps_duplicates, confirmed on the real code); "
           "concat_eq_merge_iff (concat = merge exactly when the first two non-empty operands are not fusable), concat_lists_operands / concat_lists_fused; boundary witnesses for nested operands "
           "(nested_operand_stays_nested, confirmed on the real code, declared outside the property); Python slicing (Model/PySlice, slice_eq_pySlice, getRaw_constructed, o-pyslice correspondence); "
           "CodeRange.fqn is generated by py2lean and bridged (range_fqn_generated).",
    "C06": "Audit additions: every query on a foreign node raises KeyError (foreign_all_keyError, *_keyError_iff), chains are unique (chain_unique, exists_unique_chain; "
           "NoRepeat necessary: chain_unique_needs_noRepeat), is_root characterised, queries_total; xpath strings can be followed back from the root to the very node (follow_getXpath, follow_steps_unique). "
           "Order additions (C06Order): is_ancestor is a strict order on the objects of a tree (isAncestor_irrefl / _trans / _asymm, the stored parent is an ancestor), the chain of an ancestor is a prefix "
           "of the chain of the node (chain_prefix), get_ancestors(n) = [parent] + get_ancestors(parent), get_depth(n) = get_depth(parent) + 1 = len(get_ancestors(n)).",
    "C07": "q4 additions: findall_iff_match (n in findall iff match, the property's first sentence, from the tables), findall_exactly_matches / findall_nodup_nodes, "
           "xfind_first, sat_iff_segments (declarative reading of the documented semantics: one non-empty chain segment per step, longer than one only under //), "
           "sat_absolute_first, text_findall_iff_match (text level composed with the parser theorem).",
    "C08": "q4 additions: an inductive relation Matches with one rule per clause of the property (Spec/PatternRel) and matches_iff (the executable spec = the relation, no hypotheses), "
           "match_iff_matches / nomatch_iff_matches for the compiled matcher, capture exactness at every depth (cap_field, cap_item, cap_tail, caps_inner_*, caps_are_parts: nothing "
           "but the subject, field values, sequence elements and suffix tuples is ever bound), the MultiPatternMatcher constructor (multiInit_some_iff, multi_text_eq_spec, multiRun_first), "
           "$var on nodes = content equality (var_node_contentEq via C01). s3 addition: `BaseMatcher.match` and the `_match` methods of all six matcher classes are REGENERATED from "
           "match/pattern.py on every run (py2lean_k.generate_match -> Gen/KernelsMatch.lean) and the hand-written matcher-run function is proved equal to the generated dispatcher on every matcher, "
           "value and context (GenBridgeMatch.run_eq_gen, matchNode_eq_gen; gen_eq_spec / gen_match_iff restate run_eq_spec / match_iff about the generated function; optional obligation; "
           "trusted: the class-to-constructor table and the primitive table MATCH_CLASSES / MATCH_PRIMITIVES of py2lean_k.py).",
    "C10": "Audit additions: registry frame for every operation (reg_frame*, unregister_exact: detach / replace remove exactly the receiver's descendants — RegOrd.detach_exact, "
           "mem_descendants_iff), obj_frame_history / id_frame_run over whole histories.",
    "C13": "Audit additions: soundness and completeness of the report (field_reported_iff, construct_error_sound / construct_error_witness, checkRuntimeTypes_subset), "
           "monotonicity conforms_imp, Literal (lit_exact), the checked construction path (construct_on_checked).",
    "C14": "Audit additions: duplicate creates only new registered nodes at every depth (dup_all_new, dup_all_registered, dup_descendants_new), the id rule of replace stated as an iff "
           "(replace_keeps_id_iff, replace_same_digest_keeps_id_iff; the naive rule fails: replace_keeps_id_naive_fails), freshId_least / freshId_skipped, idShape_run.",
    "C16": "Audit additions: tag-first + rest-sorted shape in every nested mapping (sorted_tagged_all, nested_tag_is_class, nested_source_is_idx), the try/finally made explicit "
           "(Model/SerOptsF: callF, tryFin_reset, reset_after_via_finally; dropping the finally or the deserializer reset fails: callNoFinally_fails, callNoResetDeser_fails), "
           "re-entrant hooks named as the limit (reentrant_hook_breaks_options).",
    "C17": "q4 additions: accepts_iff_wf / accepts_iff_clauses (accepted iff all class names are node classes, all regexes compile, captures distinct, every variable after its capture), "
           "compile_err_cause (which error for which defect; the generic runtime error never occurs: compile_no_runtime, compilePattern_trichotomy for arbitrary text), "
           "parseXPath_nonempty, xwalk_no_indexError, xpath_unknown_class_rejected.",
    "C18": "Audit additions: acyclicity as a preserved rank (ranked_step, inv_ranked_run), cid_eq_tree (content ids equal those of the tree as it is now) over runs, decidable admissibility (admB_sound), "
           "the heap-level queries ancestors / is_ancestor / get_depth = the parent chain (Model/LegacyQueries: ancestorsGo_eq, getDepth_eq, chain_exists), a cyclic heap makes the walk hang (cyclic_walk_hangs).",
    "C19": "Audit additions: a rejected step is a no-op on every pre-existing object and keeps the invariant (rejected_step, fail_frame_step, inv_step_any), arbitrary interleavings of accepted and rejected steps "
           "(inv_run_mixed, frame_run_rejected), which exception kind (attach_err_kind, rwith_err_kind_partial, rwith_not_internal).",
    "C20": "q4 additions: the character level of the legacy xpath constructor (lparseXPath_render / _rel, legacy_text_agrees_with_successor, lparseXPath_unknown_class_rejected), "
           "calculate_xpath = Tree.get_xpath (calc_eq_get_xpath). "
           "s2 additions (the link to the legacy HEAP of C18): abstraction function treeOf from heap objects to tree values; for every state satisfying C18's Inv with an acyclic child graph "
           "(Ranked) and clean parent slots (ParentClean, preserved by every step whatever its outcome: parentClean_step) -- hence after every admissible history (reachable_ok) -- and every attached node: "
           "the parent chain read off the heap's parent pointers is THE root-first chain of the node in the represented tree (heapChain_isChain, heapChain_unique; treeOf_noRepeat), the legacy matcher run on the heap "
           "by following parent pointers (Model/LegacyHeapWalk.lmatchH) ends and equals sat along that chain = the successor's match / findall on the represented tree (legacy_match_heap, "
           "legacy_match_heap_successor, legacy_match_heap_text, legacy_match_heap_run; false without ParentClean: legacy_match_heap_dirty_fails), legacy dfs / bfs / gather on the heap = the successor's walks on treeOf "
           "(heap_dfs_successor, heap_bfs_successor, heap_gather_successor), every yielded position agrees with the heap's own parent pointers (heap_items_agree), calculate_xpath on the heap = Tree.get_xpath on treeOf "
           "(heap_calc_eq_get_xpath). Correspondence: request lhxpath replays real legacy histories on the model heap and compares match / ancestors / dfs / bfs / gather / calculate_xpath on every object.",
}


def main():
    checks = []
    for pid in ALL:
        if pid not in CHECKS:
            continue
        c = CHECKS[pid]
        checks.append({
            "property_id": pid,
            "quick_cmd": f"./check {pid} quick",
            "thorough_cmd": f"./check {pid} thorough",
            "evidence_file": f"evidence/{pid}.json",
            "replay_cmd_template": f"./check {pid} --replay {{path}}",
            "engine": "lean4-model+correspondence",
            "level_claimed": {"category": "proof", "text": c["text"] + (" " + EXTRA[pid] if pid in EXTRA else ""), "design_ref": c["design"]},
            "level_note": c["note"],
            "technique": c["technique"],
        })
    m = {
        "version": 1,
        "setup_cmd": "cd lean && lake build",
        "hooks": {
            "guard": "PYOAK_VERIF",
            "enable": "no hooks are compiled into /repo: the harness imports pyoak from /repo/src in-process and observes module-level state (NODE_REGISTRY, hashlib name in pyoak.node) from outside",
            "baseline_off_cmd": "cd /repo && /venv/bin/python -m pytest -ra -q -p no:cacheprovider --timeout=900 --continue-on-collection-errors",
            "source_commits": [],
            "add_only": True,
        },
        "engines": [{
            "name": "lean4-model+correspondence",
            "path": "lean/ (lake project PyOak, driver pyoak_model), harness/run.py",
            "serves_properties": [c["property_id"] for c in checks],
            "kind_free_text": "Lean 4 theorems about an executable model; model tied to /repo by a differential line-protocol correspondence on every run",
        }],
        "checks": checks,
        "not_applicable": [{"property_id": p, "reason": TODO_REASON} for p in ALL if p not in CHECKS],
        "notes": "fix: commits in /repo and known findings are listed in known_findings.json; see DESIGN.md",
    }
    (V / "MANIFEST.json").write_text(json.dumps(m, indent=1) + "\n")

if __name__ == "__main__":
    main()
