#!/usr/bin/env python3
"""Regenerates MANIFEST.json from the table below (run after adding a property check)."""
import json
from pathlib import Path

V = Path(__file__).resolve().parent.parent
ALL = [f"C{i:02d}" for i in range(1, 21)]

CHECKS = {
    "C01": dict(
        technique="Lean 4 proof: the digest pre-image is an injective, self-delimiting encoding of the structural content (framing lemmas over List Char, strong induction on tree size) + differential correspondence (pairs, recorded blake2b pre-images, splice attacks, second hash seed)",
        text="Theorem cid_eq_iff: for every injective digest with no ':' in its output and all well-formed trees, cid a = cid b iff the "
             "trees are content-equal (same class, same comparable (name, type text, value text) set, child fields pointwise content-equal; "
             "absent != present); isEqual_iff; cid ignores uid/origin/truthiness/non-comparable props (cid_ignores) and the declaration "
             "order of fields (cid_perm). Decided modulo digest collisions (blake2b idealised as injective). The model is tied to node.py by "
             "(K2) comparing every recorded blake2b input with the model's cidInput/idInput, (K1) content_id/is_equal on generated pairs "
             "vs the model and vs the statement evaluated on the specs, a separator-splice attack that learns the framing from an observed "
             "pre-image, and rebuilding the same specs under another PYTHONHASHSEED. Lifetime clause (content_id never changes): see C10.",
        note="Trusted: Lean kernel + 3 axioms; blake2b injective with hex output; CPython's type()/str() texts injective per type and "
             "containing no '(' in the type text (validated on generated values); class names identify classes; model tied by correspondence.",
        design="5/C01"),
    "C02": dict(
        technique="Lean 4 proof: model of _eq_fn (class, content_id, root origin, strict zip of dfs streams) decides ContentEq ∧ originsAgree; equivalence laws; + differential correspondence on pairs/triples with origins differing at one position",
        text="Theorems (all well-formed trees conforming to a class table, injective digest): eqImpl never raises (the strict zip sees "
             "streams of equal length whenever content ids agree), eqImpl = true iff content-equal and origins agree at every position, "
             "reflexive/symmetric/transitive, != is the negation, other class => False. hash constancy is the C10 frame. Correspondence: "
             "a==b, b==a, a!=b, non-node comparisons and hash on generated pairs (origin changed at exactly one position at depth 0..4+, "
             "content mutants, twins) and triples, vs the model and vs the statement evaluated on the specs.",
        note="Trusted: Lean kernel + 3 axioms; blake2b injective (with a collision between trees of different size the real == would "
             "raise ValueError from zip(strict=True)); origin equality = dataclass equality; model tied by correspondence.",
        design="5/C02"),
    "C05": dict(
        technique="Lean 4 proof: implementation-shaped stack/deque/queue loops = recursive pre/post/level-order spec (induction on fuel/weight) + differential correspondence model vs real dfs/bfs/gather",
        text="Theorems (for every tree, every prune/filter, no size bound): dfsImpl = pre-order spec, bottom-up = post-order spec, "
             "bfsImpl = level-by-level spec, gather = filtered pre-order, position soundness, start node never yielded, exactly "
             "size-1 positions. The model is tied to /repo by running real dfs/bfs/gather/get_child_nodes_with_field and the "
             "compiled Lean definitions on the same seeded trees and predicate subsets; any observable difference is a replayable violation.",
        note="Trusted: Lean kernel + 3 standard axioms; the hand-written model of node.py dfs/bfs/gather and of the generated "
             "child accessor (codegen.py) is tied to the code only by the correspondence (differential testing over seeded "
             "zoo trees incl. falsy children, shared objects, long tuples); callbacks assumed pure.",
        design="5/C05"),
    "C06": dict(
        technique="Lean 4 proof: Tree tables built from one dfs pass answer every upward query exactly as the root-first chain dictates (induction over the dfs stream / chains) + differential correspondence vs real pyoak.tree.Tree",
        text="Theorems (every tree, unbounded): membership, parent info = actual storage position, ancestors = parent chain, "
             "absolute/relative depth, ValueError for non-ancestors, KeyError for foreign nodes, first ancestor of type, "
             "get_xpath = spelling of the chain; NoRepeat shown necessary by a decide-checked counterexample. Correspondence: "
             "all queries on all nodes / sampled pairs / content-identical foreign twins on seeded trees, plus an oracle that "
             "get_xpath values are pairwise distinct and can be followed from the root (that clause is exploration, not yet a theorem).",
        note="Trusted: Lean kernel + 3 standard axioms; dict-keyed-by-node = map keyed by object identity under the "
             "statement's precondition (all nodes registered => distinct ids); hand-written model of tree.py tied by correspondence.",
        design="5/C06"),
    "C07": dict(
        technique="Lean 4 proof: bottom-up matcher over Tree tables = top-down documented semantics `sat` (reversal theorem), findall worklist sound/complete/duplicate-free w.r.t. `sat` + differential correspondence (parse, findall, find, match on every node) vs real ASTXpath",
        text="Theorems (every tree without repeated objects, every element list): match(root, n) computed from the Tree tables = sat(chain of n); "
             "findall yields exactly (and once) the positions whose chain satisfies sat; find = head of findall; hence n in findall iff match. "
             "The parser (text -> elements, all index digits significant, whitespace) is modelled and compared with the real lark-based "
             "parser on every generated text but not yet proved against a renderer (partial). Correspondence compares elements, findall order, "
             "find and match for every node on seeded trees with tuples up to 14 and derived + random + mutated xpaths.",
        note="Trusted: Lean kernel + 3 axioms; lark's LALR/contextual lexer re-modelled by hand; dict de-duplication keyed by object identity; "
             "model tied to /repo by correspondence only. Partial: no parse_render theorem.",
        design="5/C07"),
}

TODO_REASON = "check not built yet in this revision (planned, see DESIGN.md section 5); no claim is made"

def main():
    checks = []
    for pid in ALL:
        if pid not in CHECKS:
            continue
        c = CHECKS[pid]
        checks.append({
            "property_id": pid,
            "quick_cmd": f"./check {pid} quick",
            "thorough_cmd": f"./check {pid} thorough",
            "evidence_file": f"evidence/{pid}.json",
            "replay_cmd_template": f"./check {pid} --replay {{path}}",
            "engine": "lean4-model+correspondence",
            "level_claimed": {"category": "proof", "text": c["text"], "design_ref": c["design"]},
            "level_note": c["note"],
            "technique": c["technique"],
        })
    m = {
        "version": 1,
        "setup_cmd": "cd lean && lake build",
        "hooks": {
            "guard": "PYOAK_VERIF",
            "enable": "no hooks are compiled into /repo: the harness imports pyoak from /repo/src in-process and observes module-level state (NODE_REGISTRY, hashlib name in pyoak.node) from outside",
            "baseline_off_cmd": "cd /repo && /venv/bin/python -m pytest -ra -q -p no:cacheprovider --timeout=900 --continue-on-collection-errors",
            "source_commits": [],
            "add_only": True,
        },
        "engines": [{
            "name": "lean4-model+correspondence",
            "path": "lean/ (lake project PyOak, driver pyoak_model), harness/run.py",
            "serves_properties": [c["property_id"] for c in checks],
            "kind_free_text": "Lean 4 theorems about an executable model; model tied to /repo by a differential line-protocol correspondence on every run",
        }],
        "checks": checks,
        "not_applicable": [{"property_id": p, "reason": TODO_REASON} for p in ALL if p not in CHECKS],
        "notes": "fix: commits in /repo and known findings are listed in known_findings.json; see DESIGN.md",
    }
    (V / "MANIFEST.json").write_text(json.dumps(m, indent=1) + "\n")

if __name__ == "__main__":
    main()
