#!/bin/sh
# usage: thor.sh <seed> <props...>
s=$1; shift
for c in "$@"; do out=$(VERIF_SEED=$s ./check $c thorough 2>&1); rc=$?; echo "seed=$s rc=$rc $(echo "$out" | tail -1 | cut -c1-150)"; echo "$out" | grep "^VIOLATION\|^NOTE" | head -3; done
