#!/bin/sh
# usage: tools/run_all.sh quick|thorough [seed ...]   — runs every registered check sequentially, prints one line each
tier=${1:-quick}; shift
seeds=${*:-0}
cd "$(dirname "$0")/.." || exit 2
for s in $seeds; do
  for c in $(python3 -c "import json;print(' '.join(x['property_id'] for x in json.load(open('MANIFEST.json'))['checks']))"); do
    out=$(VERIF_SEED=$s ./check $c $tier 2>&1); rc=$?
    echo "seed=$s rc=$rc $(echo "$out" | tail -1 | cut -c1-150)"
    echo "$out" | grep "^VIOLATION" | head -3
  done
done
