#!/bin/sh
# usage: tools/r5_file.sh c13 [c15 ...] — confirms and files the round-5 changes of the given properties (serial; touches /repo)
for k in "$@"; do
  P=$(echo $k | tr c C)
  for n in 1 2; do
    d=/tmp/r11/$k/out/change$n
    [ -f $d/patch.diff ] || { echo "$k change$n: no patch"; continue; }
    needs=$(grep -m1 '^Needs:' $d/notes.txt | cut -c1-300)
    echo "== r11-$k-change$n"
    SEED_CHECK_REPO=/tmp/mine/repo /venv/bin/python /verif/tools/confirm_seeded.py /tmp/r11/$k/repo $d r11-$k-change$n $P "$needs" 2>&1 | grep -v conda
  done
done
