#!/bin/sh
# runs the pinned test suite of /repo; exit 0 only if exactly the 244 baseline tests pass
out=$(cd /repo && timeout 900 /venv/bin/python -m pytest -q -p no:cacheprovider --timeout=900 2>&1 | tail -1)
echo "$out"
case "$out" in *"244 passed"*) case "$out" in *failed*|*error*) exit 1;; *) exit 0;; esac;; *) exit 1;; esac
