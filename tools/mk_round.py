#!/usr/bin/env python3
"""usage: tools/mk_round.py <round-name> <C07 C09 ...>   — prepares /tmp/<round>/<cNN>/{repo worktree, out/, prompt.txt} for a round of
seeded changes: one sub-agent per property, given ONLY the property text, the anchors and a scratch worktree (nothing from /verif),
is asked for two changes that break the property while the library compiles and the pinned tests pass.  The ideas already filed
under seeded/ are listed in the prompt so that new rounds explore new mechanisms."""
import collections, glob, json, os, subprocess, sys

rnd, props = sys.argv[1], sys.argv[2:]
avoid = collections.defaultdict(list)
for f in sorted(glob.glob('/verif/seeded/*/meta.json')):
    m = json.load(open(f))
    n = m.get('author_notes', '').strip().split('\n')[0].replace('Change:', '').strip()[:150]
    avoid[m['breaks_property']].append(n)
for l in open('/verif/properties.jsonl'):
    p = json.loads(l); i = p['id']; k = i.lower()
    if i not in props:
        continue
    d = f'/tmp/{rnd}/{k}'
    os.makedirs(d + '/out', exist_ok=True)
    subprocess.run(['git', '-C', '/repo', 'worktree', 'add', '--detach', d + '/repo', 'HEAD'], capture_output=True)
    anchors = '\n'.join(f"  - {m['name']} ({m['where']})" for m in p['anchors']['mechanism'])
    av = '\n'.join('  - ' + a for a in avoid[i])
    txt = f"""You are helping to evaluate a verification tool for the Python library pyoak (mishamsk/pyoak: ASTs as frozen dataclasses, with node registry, content hashing, traversal, xpath, pattern matching, serialization). Your job is to play the part of a developer who introduces a SUBTLE REGRESSION.

Your private scratch git worktree of the library: {d}/repo  (source in src/pyoak, tests in tests/). Work ONLY there and in {d}/out. Never touch /repo or /verif, and do not read anything under /verif (your result must be independent of it). No network. Python: /venv/bin/python (run things as `cd {d}/repo && PYTHONPATH={d}/repo/src timeout 600 /venv/bin/python ...`; always use `timeout`).

THE PROPERTY (id {i}) — "{p['title']}":
{p['statement']}

Where the mechanism lives:
{anchors}

TASK: produce TWO different changes to the library source (each a separate patch against the worktree's HEAD) that each BREAK this property while
 (a) the library still imports and the pinned test suite still passes unchanged: `cd {d}/repo && PYTHONPATH={d}/repo/src timeout 900 /venv/bin/python -m pytest -q -p no:cacheprovider --timeout=900` must report exactly `244 passed` (do not edit tests);
 (b) the change looks like something a real developer could plausibly commit (an optimisation, a refactoring, a cache, a tidy-up, a new optional feature, a "fix" of something else) — not sabotage with an obvious marker, no special-casing of magic values, no randomness, no environment checks;
 (c) the violation needs something SPECIFIC to manifest — a multi-step sequence of operations, an unusual but legitimate input shape, a particular order of first use, a failure at a particular point, or two cooperating edit sites that each look fine alone — and is NOT exposed at once by ordinary use of the library. Prefer ideas that differ from each other and from these, which were already used (do NOT repeat any of them nor close variants; in particular no more: truthiness instead of is-None, module-level / per-class caches, __init_subclass__ tricks, falsy or iterable node classes, same-named classes, surrogate strings, str subclasses / str-enums, thread-local or contextvar state, typing.Sequence / Any child fields, ID_DIGEST_SIZE collisions unless the mechanism is genuinely new):
{av}

For each change write into {d}/out/change1/ and {d}/out/change2/:
  patch.diff  — `git diff` of the change against HEAD (must apply with `git apply` to a clean checkout of HEAD; only files under src/);
  demo.py     — a small standalone program (only imports pyoak and the stdlib; run as `PYTHONPATH=<repo>/src /venv/bin/python demo.py`) that exits 0 on the UNCHANGED library and exits non-zero (assertion failure) WITH the change, demonstrating the violation of the property as stated (not merely a difference in behaviour);
  notes.txt   — first line `Change: <what was changed and why it looks innocent>`, second line `Needs: <what is needed for the violation to manifest>`, then test-suite result and demo results.
Verify all of it yourself: apply the patch, run the test suite (244 passed), run demo (fails), `git checkout -- .`, run demo (passes). Leave the worktree clean (`git status --short` empty) when you finish. Your final message: for each change, 3-4 lines (what, needs, confirmed results). If you could produce only one valid change, say so."""
    open(d + '/prompt.txt', 'w').write(txt)
    print(d + '/prompt.txt', len(txt))
