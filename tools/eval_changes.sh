#!/bin/sh
# usage: tools/eval_changes.sh <outdir> <Cxx>  — applies each change*/patch.diff to /repo, runs the quick check, undoes
out=$1; c=$2
for d in $out/change*/; do
  git -C /repo apply $d/patch.diff 2>/dev/null || { echo "$(basename $out)/$(basename $d): NOAPPLY"; continue; }
  r=$(cd /verif && ./check $c quick 2>&1 | grep -v "^KNOWN" | tail -1)
  git -C /repo checkout -- .
  echo "$(basename $out)/$(basename $d): $r" | cut -c1-160
done
